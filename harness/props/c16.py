"""C16 — recoverable irregular packages open intact; non-packages are refused with the specific exception."""
from __future__ import annotations

import io
import shutil
import zipfile

from lxml import etree

from harness import common
from harness.props import c01

ID = "C16"
LEAN_MODULES = ["PptxModel.Props.C16"]
RULE = (
    "fault injection on every deck of the repository corpus and on seeded random packages: a dangling internal target "
    "added to each rels item in turn, each part's rels item deleted, each Default/Override entry case-flipped (key and part "
    "name), an unknown content type on a non-essential part, extra unreferenced members, slide parts renamed by a "
    "permutation (non-contiguous, out of order), core properties removed, directory form; singly (quick: seeded subset per "
    "deck) and in seeded pairs; plus truncated zips at seeded cut points, non-zip bytes, empty file, missing "
    "[Content_Types].xml, missing _rels/.rels, non-presentation main part.  Expected exception class or, on success, the "
    "saved package compared with the model's listing and judged by the OPC oracle against the faulted input "
    "(references already dangling in the input excepted).  Non-trivial = distinct (deck, fault list)."
)
ASSUMPTIONS = [
    "which message zipfile gives at which truncation point is runtime: the class (BadZipFile for a stream, "
    "PackageNotFoundError for a path) is what the statement fixes and what is judged",
    "XML payloads of registered part classes are re-serialised on save: compared by the C01 corpus oracle, not here",
]
TRUSTED = ["fault injectors in harness/props/c16.py"]

CT_NS, REL_NS = c01.CT_NS, c01.REL_NS


def parse_zip(data):
    """zip bytes -> structured package dict in c01's format (types by OPC semantics)"""
    z = zipfile.ZipFile(io.BytesIO(data))
    names = [n for n in z.namelist() if not n.endswith("/")]
    defaults, overrides = [], []
    has_ct = "[Content_Types].xml" in names
    if has_ct:
        ct = etree.fromstring(z.read("[Content_Types].xml"))
        defaults = [(e.get("Extension"), e.get("ContentType")) for e in ct if e.tag.endswith("}Default")]
        overrides = [(e.get("PartName"), e.get("ContentType")) for e in ct if e.tag.endswith("}Override")]
    members, rels = {}, {}
    for n in names:
        if n == "[Content_Types].xml":
            continue
        members["/" + n] = z.read(n)
    # rels items are looked up by name from the source part; collect every *.rels under a _rels folder
    for n in names:
        if n.endswith(".rels") and "_rels/" in n:
            d, f = n.rsplit("_rels/", 1)
            src = "/" if n == "_rels/.rels" else "/" + d + f[: -len(".rels")]
            try:
                r = etree.fromstring(z.read(n))
            except etree.XMLSyntaxError:
                continue
            rels[src] = [(e.get("Id"), e.get("Type"), e.get("Target"), e.get("TargetMode") == "External") for e in r]
    d = {k.lower(): v for k, v in defaults}
    o = {k.lower(): v for k, v in overrides}
    types = {}
    for nm in members:
        fn = nm.rsplit("/", 1)[1]
        ext = fn.rsplit(".", 1)[1].lower() if "." in fn else ""
        types[nm] = o.get(nm.lower(), d.get(ext))
    return {"members": members, "defaults": defaults, "overrides": overrides, "rels": rels, "types": types, "has_ct": has_ct}


def build_zip(pkg):
    b = io.BytesIO()
    with zipfile.ZipFile(b, "w", zipfile.ZIP_DEFLATED) as z:
        if pkg.get("has_ct", True):
            z.writestr("[Content_Types].xml", c01.ct_xml(pkg["defaults"], pkg["overrides"]))
        written = set()
        for src, lst in pkg["rels"].items():
            m = c01.rels_member(src)
            z.writestr(m, c01.rels_xml(lst))
            written.add("/" + m)
        for nm, data in pkg["members"].items():
            if nm not in written:
                z.writestr(nm[1:], data)
    return b.getvalue()


# ------------------------------------------------------------------------------------------ faults


_DANGLING = ["NULL", "../nothing/here.xml", "/ppt/slides/NULL", "", ".", "missing/", "http://example.com/page", "mailto:x@y.z",
             "file:///C:/a.pptx", "../../../../../up.xml", "a b/c%20d.xml", "?", "#frag"]
_dangle_k = [0]


def f_dangle(pkg, rng):
    """a relationship whose target part is absent: a voided name, a path, nothing at all, something that looks like an
    absolute URI although the relationship is internal, a path that climbs above the package root - every spelling is used
    in every run (they are taken in turn, not sampled)"""
    srcs = [s for s in pkg["rels"]]
    if not srcs:
        return None
    s = rng.choice(srcs)
    t = _DANGLING[_dangle_k[0] % len(_DANGLING)]; _dangle_k[0] += 1
    pkg["rels"][s] = pkg["rels"][s] + [("rId%d" % (900 + rng.randint(0, 99)), "http://example.com/rel/x", t, False)]
    return f"dangle@{s}"


def f_drop_rels(pkg, rng):
    srcs = [s for s in pkg["rels"] if s != "/" and not s.endswith("presentation.xml")]
    if not srcs:
        return None
    s = rng.choice(srcs)
    del pkg["rels"][s]
    pkg["members"].pop("/" + c01.rels_member(s), None)
    return f"drop-rels@{s}"


def f_no_core(pkg, rng):
    core = [n for n in pkg["members"] if n.lower().endswith("docprops/core.xml")]
    if not core:
        return None
    pkg["members"].pop(core[0])
    if rng.random() < 0.5:
        pkg["rels"]["/"] = [r for r in pkg["rels"].get("/", []) if "core-properties" not in r[1]]
    return "no-core"


def f_case(pkg, rng):
    if rng.random() < 0.5 and pkg["defaults"]:
        i = rng.randrange(len(pkg["defaults"]))
        e, c = pkg["defaults"][i]
        pkg["defaults"][i] = (e.swapcase(), c)
        return f"case-default:{e}"
    if pkg["overrides"]:
        i = rng.randrange(len(pkg["overrides"]))
        n, c = pkg["overrides"][i]
        pkg["overrides"][i] = (n.swapcase(), c)
        return f"case-override:{n}"
    return None


def f_unknown_ct(pkg, rng):
    cands = [i for i, (n, c) in enumerate(pkg["overrides"]) if any(k in n for k in ("theme", "viewProps", "tableStyles", "presProps", "app.xml", "printerSettings"))]
    if not cands:
        return None
    i = rng.choice(cands)
    n, _ = pkg["overrides"][i]
    pkg["overrides"][i] = (n, "application/x-unknown-type")
    return f"unknown-ct:{n}"


def f_extra(pkg, rng):
    n = rng.choice(["/junk/extra.bin", "/ppt/slides/leftover.xml", "/Thumbs.db", "/ppt/media/unused.png"])
    if n in pkg["members"]:
        return None
    pkg["members"][n] = b"extra-bytes"
    return f"extra:{n}"


def f_dir_entries(pkg, rng):
    """the zero-length entry per directory that a general-purpose archiver writes when a package is unzipped and zipped
    again (`zip -r`, 7-Zip, Finder): "ppt/", "ppt/slides/", "_rels/" ... - members no relationship refers to"""
    dirs = sorted({"/".join(n.split("/")[:k]) + "/" for n in pkg["members"] for k in range(2, n.count("/") + 1)})
    dirs = [d for d in dirs if d not in pkg["members"]]
    if not dirs:
        return None
    pick = dirs if rng.random() < 0.5 else rng.sample(dirs, rng.randint(1, len(dirs)))
    for d in pick:
        pkg["members"][d] = b""
    return f"directory-entries:{len(pick)}"


def f_rename_slides(pkg, rng):
    import re

    slides = sorted(n for n in pkg["members"] if re.fullmatch(r"/ppt/slides/slide\d+\.xml", n))
    if not slides:
        return None
    nums = rng.sample(range(1, 40), len(slides))
    mapping = {old: "/ppt/slides/slide%d.xml" % k for old, k in zip(slides, nums)}
    if len(set(mapping.values())) != len(mapping):
        return None
    new_members = {}
    for n, b in pkg["members"].items():
        new_members[mapping.get(n, n)] = b
    pkg["members"] = new_members
    pkg["overrides"] = [(mapping.get(n, n), c) for n, c in pkg["overrides"]]
    new_rels = {}
    for src, lst in pkg["rels"].items():
        out = []
        for rid, ty, tgt, ext in lst:
            if not ext:
                full = c01.resolve(src, tgt)
                if full in mapping:
                    tgt = mapping[full]  # root-absolute reference to the renamed part
            out.append((rid, ty, tgt, ext))
        new_rels[mapping.get(src, src)] = out
    pkg["rels"] = new_rels
    pkg["members"] = {n: b for n, b in pkg["members"].items() if not (n.endswith(".rels") and "/_rels/" in n)}
    return "rename-slides:" + ",".join(str(k) for k in nums)


def f_upper_ext(pkg, rng):
    """a part NAME with an upper-/mixed-case extension against a lower-case Default declaration"""
    defaults = {e.lower() for e, _ in pkg["defaults"]}
    cands = [n for n in pkg["members"] if "." in n.rsplit("/", 1)[1] and n.rsplit(".", 1)[1].lower() in defaults
             and n.rsplit(".", 1)[1].lower() not in ("xml", "rels") and not any(o[0].lower() == n.lower() for o in pkg["overrides"])]
    if not cands:
        return None
    old = rng.choice(cands)
    stem, ext = old.rsplit(".", 1)
    new = stem + "." + rng.choice([ext.upper(), ext.capitalize()])
    if new == old:
        return None
    pkg["members"] = {(new if n == old else n): b for n, b in pkg["members"].items()}
    new_rels = {}
    for src, lst in pkg["rels"].items():
        out = []
        for rid, ty, tgt, ext_ in lst:
            if not ext_ and c01.resolve(src, tgt) == old:
                tgt = new
            out.append((rid, ty, tgt, ext_))
        new_rels[new if src == old else src] = out
    pkg["rels"] = new_rels
    return f"upper-ext:{old}"


def f_empty_part(pkg, rng):
    """a reachable part of ZERO length (an empty printer-settings or custom binary part): present, so it is loaded and
    preserved - not the same as an absent target"""
    srcs = [s for s in pkg["rels"] if s.endswith(".xml")]
    if not srcs:
        return None
    s = rng.choice(srcs)
    n = "/ppt/printerSettings/printerSettingsE%d.bin" % rng.randint(1, 99)
    if n in pkg["members"]:
        return None
    pkg["members"][n] = b""
    if not any(e.lower() == "bin" for e, _ in pkg["defaults"]):
        pkg["defaults"] = list(pkg["defaults"]) + [("bin", "application/vnd.openxmlformats-officedocument.presentationml.printerSettings")]
    rid = "rId%d" % (700 + rng.randint(0, 99))
    if any(r[0] == rid for r in pkg["rels"][s]):
        return None
    pkg["rels"][s] = pkg["rels"][s] + [(rid, "http://schemas.openxmlformats.org/officeDocument/2006/relationships/printerSettings", n, False)]
    return f"empty-part@{s}"


FAULTS = [f_dangle, f_drop_rels, f_no_core, f_case, f_unknown_ct, f_extra, f_rename_slides, f_upper_ext, f_empty_part, f_dir_entries]


def model_line_for(pkg):
    dct, xml_ct, rels_ct = c01.spec_tables()
    # the model reads rels items by source name; members exclude rels items and the content-types item
    members = {n: b for n, b in pkg["members"].items() if not (n.endswith(".rels") and "/_rels/" in n or n.startswith("/_rels/"))}
    p2 = dict(pkg, members=members)
    return c01.model_line(p2, dct, xml_ct, rels_ct, has_ct=pkg.get("has_ct", True))


def open_save(data, form, tmp, as_presentation):
    from pptx import Presentation
    from pptx.opc.package import OpcPackage

    if form == "stream":
        src = io.BytesIO(data)
    elif form == "path":
        p = tmp / "f.pptx"
        p.write_bytes(data)
        src = str(p)
    else:
        d = tmp / "fdir"
        shutil.rmtree(d, ignore_errors=True)
        with zipfile.ZipFile(io.BytesIO(data)) as z:
            z.extractall(d)
        src = str(d)
    out = io.BytesIO()
    if as_presentation:
        prs = Presentation(src)
        prs.save(out)
    else:
        OpcPackage.open(src).save(out)
    return out.getvalue()


MAIN = []


def out_of_order_twice(ctx):
    """'slide part names that are non-contiguous or out of order ... open intact': such a deck opened, saved BEFORE the slides
    are looked at, then looked at (the parts are renamed on first access) and saved again - both files must re-open with the
    same slides in the same order, every relationship target present"""
    import io
    import zipfile

    from pptx import Presentation
    from pptx.opc.packuri import PackURI

    rng = ctx.rng
    for trial in range(4 if ctx.quick else 30):
        prs = Presentation()
        n = rng.randint(3, 6)
        for i in range(n):
            s_ = prs.slides.add_slide(prs.slide_layouts[5]); s_.shapes.title.text = "slide-%d" % i
        for s_, num in zip(list(prs.slides), rng.sample(range(1, 12), n)):
            s_.part.partname = PackURI("/ppt/slides/slide%d.xml" % num)
        b = io.BytesIO(); prs.save(b)
        want = ["slide-%d" % i for i in range(n)]
        p2 = Presentation(io.BytesIO(b.getvalue()))
        first = io.BytesIO(); p2.save(first)                      # nothing read yet
        titles_mem = [s_.shapes.title.text for s_ in p2.slides]   # first access: slide parts renamed
        second = io.BytesIO(); p2.save(second)
        ctx.case(key=("out-of-order-twice", trial))
        for which, data in (("first", first.getvalue()), ("second", second.getvalue())):
            case = {"input": "slide parts out of order", "save": which, "slides": n}
            try:
                got = [s_.shapes.title.text for s_ in Presentation(io.BytesIO(data)).slides]
            except Exception as e:  # noqa
                ctx.fail("out-of-order:reopen-raised", f"deck with out-of-order slide part names: the {which} save cannot be re-opened: {type(e).__name__}: {str(e)[:120]}", case)
                continue
            if got != want or titles_mem != want:
                ctx.fail("out-of-order:slides-differ", f"deck with out-of-order slide part names: the {which} save re-opens with slides {got}, in memory {titles_mem}, expected {want}", case)
            z = zipfile.ZipFile(io.BytesIO(data))
            names = set(z.namelist())
            for m in names:
                if m.endswith(".rels"):
                    d, f = m.rsplit("_rels/", 1)
                    src = "/" if m == "_rels/.rels" else "/" + d + f[: -len(".rels")]
                    from lxml import etree
                    for e in etree.fromstring(z.read(m)):
                        if e.get("TargetMode") != "External" and c01.resolve(src, e.get("Target"))[1:] not in names:
                            ctx.fail("out-of-order:dangling-target", f"the {which} save: {m} targets {e.get('Target')}, not in the file", case)


def correspond(ctx):
    from pptx.exc import PackageNotFoundError

    out_of_order_twice(ctx)

    rng = ctx.rng
    tmp = common.scratch()
    dct, xml_ct, rels_ct = c01.spec_tables()
    decks = common.corpus_decks()
    per_deck = 4 if ctx.quick else 40
    lines, impl, metas = [], [], []
    for deck in decks:
        base = deck.read_bytes()
        try:
            base_pkg = parse_zip(base)
        except Exception:
            continue
        for _ in range(per_deck):
            pkg = {k: (dict(v) if isinstance(v, dict) else list(v) if isinstance(v, list) else v) for k, v in base_pkg.items()}
            pkg["rels"] = {s: list(l) for s, l in base_pkg["rels"].items()}
            applied = []
            for f in rng.sample(FAULTS, rng.choice([1, 1, 2])):
                a = f(pkg, rng)
                if a:
                    applied.append(a)
            if not applied:
                continue
            # the rels members themselves are rebuilt from pkg["rels"]
            pkg["members"] = {n: b for n, b in pkg["members"].items() if not (n.endswith(".rels") and ("/_rels/" in n))}
            data = build_zip(pkg)
            form = rng.choice(["stream", "stream", "path", "dir"])
            case = {"deck": deck.name, "faults": applied, "form": form}
            ctx.case(key=(deck.name, tuple(applied), form))
            for a in applied:
                ctx.count("fault-" + a.split(":")[0].split("@")[0])
            ctx.count("form-" + form)
            try:
                saved = open_save(data, form, tmp, as_presentation=True)
            except Exception as e:  # noqa
                ctx.fail("irregular-package-refused:" + applied[0].split(":")[0].split("@")[0],
                         f"{deck.name} with {applied} [{form}]: {type(e).__name__}: {str(e)[:150]}", case)
                continue
            faulted = parse_zip(data)
            faulted["types"] = {n: t for n, t in faulted["types"].items()}
            check_saved(ctx, faulted, saved, case)
            if any(a == "no-core" for a in applied):
                # "a package without core properties gains a default part on first access" - and loses nothing else
                try:
                    from pptx import Presentation
                    prs = Presentation(io.BytesIO(data))
                    _ = prs.core_properties.title
                    b2 = io.BytesIO(); prs.save(b2)
                    names2 = set(zipfile.ZipFile(io.BytesIO(b2.getvalue())).namelist())
                    names1 = set(zipfile.ZipFile(io.BytesIO(saved)).namelist())
                    lost = sorted(n for n in names1 - names2 if "core" not in n)
                    ctx.count("no-core-then-access")
                    if lost or not any(n.endswith("core.xml") for n in names2):
                        ctx.fail("core-properties-access-loses-parts", f"{deck.name} with {applied}: after reading core_properties the saved package lost {lost} / core part present: {any(n.endswith('core.xml') for n in names2)}", case)
                except Exception as e:  # noqa
                    ctx.fail("core-properties-access-raises", f"{deck.name} with {applied}: {type(e).__name__}: {str(e)[:100]}", case)
            l1, _ = c01.listing_of_zip(saved)
            # payload identity column is not compared for decks (XML parts are re-serialised)
            lines.append(model_line_for(faulted))
            impl.append(l1)
            metas.append(case)
    out = ctx.driver.run(lines)
    for case, i, m in zip(metas, impl, out):
        ctx.traces += 1
        if not m.startswith("OK "):
            ctx.disagree("load", case, "opened", m)
            continue
        first = " ".join(m.split(" ")[1:6])
        # compare everything except the payload-source column (index 3)
        a, b = i.split(" "), first.split(" ")
        if a[:3] + a[4:] != b[:3] + b[4:]:
            ctx.disagree("listing", case, c01.show("OK " + i)[:1500], c01.show("OK " + first)[:1500])
    # refusals
    good = decks[0].read_bytes()
    refusals = []
    for cut in sorted(set([0, 1, 10, 100] + [rng.randrange(len(good)) for _ in range(6 if ctx.quick else 60)])):
        refusals.append((f"truncated@{cut}", good[:cut], None))
    refusals += [("non-zip-text", b"this is not a zip file at all" * 10, None), ("empty", b"", None),
                 ("png-bytes", b"\x89PNG\r\n\x1a\n" + b"\x00" * 200, None)]
    for name, data, _ in refusals:
        for form in ("stream", "path"):
            ctx.case(key=("refuse", name, form)); ctx.count("refusal-" + form)
            try:
                open_save(data, form, tmp, as_presentation=True)
                ok = None
            except zipfile.BadZipFile:
                ok = "BadZipFile"
            except PackageNotFoundError:
                ok = "PackageNotFoundError"
            except Exception as e:  # noqa
                ok = type(e).__name__
            # the statement: PackageNotFoundError for a path, BadZipFile for a stream.  Every truncation removes the zip
            # end-of-central-directory record, so a truncated file given by path is "not a package" like any other non-zip
            want = {"stream": ("BadZipFile",), "path": ("PackageNotFoundError",)}[form]
            if ok not in want:
                ctx.fail(f"refusal-class:{form}", f"{name} [{form}]: expected {want}, got {ok}", {"input": name, "form": form})
    # missing mandatory members / wrong main part
    base_pkg = parse_zip(good)
    for name, mut, want in [
        ("no-content-types", lambda p: p.update(has_ct=False), "KeyError"),
        ("no-package-rels", lambda p: p["rels"].pop("/"), "KeyError"),
        ("wrong-main-type", lambda p: p.update(overrides=[(n, ("application/vnd.openxmlformats-officedocument.wordprocessingml.document.main+xml" if n.endswith("presentation.xml") else c)) for n, c in p["overrides"]]), "ValueError"),
    ] + [
        # every other main-part type a presentation-like file can carry (a template, a slide show and their macro-enabled
        # forms are not presentations; the macro-enabled PRESENTATION is one and must open)
        ("main-type:" + ct.split("/")[-1][-44:],
         (lambda ct: lambda p: p.update(overrides=[(n, (ct if n.endswith("presentation.xml") else c)) for n, c in p["overrides"]]))(ct), want_)
        for ct, want_ in [
            ("application/vnd.openxmlformats-officedocument.presentationml.template.main+xml", "ValueError"),
            ("application/vnd.openxmlformats-officedocument.presentationml.slideshow.main+xml", "ValueError"),
            ("application/vnd.ms-powerpoint.template.macroEnabled.main+xml", "ValueError"),
            ("application/vnd.ms-powerpoint.slideshow.macroEnabled.main+xml", "ValueError"),
            ("application/vnd.openxmlformats-officedocument.presentationml.slide+xml", "ValueError"),
            ("application/vnd.openxmlformats-officedocument.spreadsheetml.sheet.main+xml", "ValueError"),
            ("application/xml", "ValueError"),
            ("application/vnd.ms-powerpoint.presentation.macroEnabled.main+xml", None),
        ]
    ]:
        pkg = {k: (dict(v) if isinstance(v, dict) else list(v) if isinstance(v, list) else v) for k, v in base_pkg.items()}
        pkg["rels"] = {s: list(l) for s, l in base_pkg["rels"].items()}
        mut(pkg)
        pkg["members"] = {n: b for n, b in pkg["members"].items() if not (n.endswith(".rels") and "/_rels/" in n or n.startswith("/_rels/"))}
        data = build_zip(pkg)
        for form in ("stream", "path", "dir"):
            ctx.case(key=("refuse", name, form)); ctx.count("refusal-" + name)
            try:
                open_save(data, form, tmp, as_presentation=True)
                got = None
            except Exception as e:  # noqa
                got = type(e).__name__
            if got != want:
                ctx.fail(f"refusal-class:{name}", f"{name} [{form}]: expected {want}, got {got}", {"input": name, "form": form})
            if name.startswith("main-type:") or name == "wrong-main-type":
                # the decision itself against the model (`Opc.isPresentationType`)
                main_ct = [c for n, c in pkg["overrides"] if n.endswith("presentation.xml")]
                if main_ct and got in (None, "ValueError"):
                    MAIN.append(("c16.main " + common.enc(main_ct[0]), "ok" if got is None else "ValueError", {"input": name, "form": form}))
    for (line, i, case), m in zip(MAIN, ctx.driver.run([x[0] for x in MAIN]) if MAIN else []):
        ctx.traces += 1
        ctx.case(key=(line, case["form"]))
        if i != m:
            ctx.disagree("main-part-type", case, i, m)
    del MAIN[:]
    if metas:
        ctx.sample({"case": metas[0], "impl": c01.show("OK " + impl[0])[:600]})
        ctx.sample({"case": metas[-1]})


def check_saved(ctx, faulted, saved, case):
    """OPC oracle on (faulted input, saved output): reachable parts kept, types kept, relationships kept except dangling"""
    z = zipfile.ZipFile(io.BytesIO(saved))
    names = z.namelist()
    fail = lambda key, what: ctx.fail(key, f"{case['deck']} {case['faults']} [{case['form']}]: {what}", case)  # noqa
    if len(set(names)) != len(names):
        fail("duplicate-member", "duplicate zip members")
    members = {n for n in faulted["members"] if not (n.endswith(".rels") and ("/_rels/" in n or n.startswith("/_rels/")))}
    reach, stack, seen = [], ["/"], set()
    while stack:
        s = stack.pop()
        if s in seen:
            continue
        seen.add(s)
        if s != "/":
            reach.append(s)
        for rid, ty, tgt, ext in faulted["rels"].get(s, []):
            if not ext:
                t = c01.resolve(s, tgt)
                if t in members:
                    stack.append(t)
    got_parts = {"/" + n for n in names if n != "[Content_Types].xml" and not (n.endswith(".rels") and "_rels/" in n)}
    if got_parts != set(reach):
        fail("parts-differ", f"saved parts differ from reachable parts: missing {sorted(set(reach) - got_parts)[:4]} extra {sorted(got_parts - set(reach))[:4]}")
        return
    ct = etree.fromstring(z.read("[Content_Types].xml"))
    d = {e.get("Extension").lower(): e.get("ContentType") for e in ct if e.tag.endswith("}Default")}
    o = {e.get("PartName").lower(): e.get("ContentType") for e in ct if e.tag.endswith("}Override")}
    for nm in reach:
        fn = nm.rsplit("/", 1)[1]
        ext = fn.rsplit(".", 1)[1].lower() if "." in fn else ""
        got = o.get(nm.lower(), d.get(ext))
        if got != faulted["types"][nm]:
            fail("content-type-changed", f"part {nm}: {faulted['types'][nm]!r} -> {got!r}")
    for src in ["/"] + reach:
        want = sorted((rid, ty, (tgt if ext else c01.resolve(src, tgt)), ext) for rid, ty, tgt, ext in faulted["rels"].get(src, [])
                      if ext or c01.resolve(src, tgt) in members)
        m = c01.rels_member(src)
        got = []
        if m in names:
            r = etree.fromstring(z.read(m))
            got = sorted((e.get("Id"), e.get("Type"), (e.get("Target") if e.get("TargetMode") == "External" else c01.resolve(src, e.get("Target"))),
                          e.get("TargetMode") == "External") for e in r)
        if got != want:
            fail("relationships-changed", f"relationships of {src} changed: {[x for x in want if x not in got][:3]} vs {[x for x in got if x not in want][:3]}")


def search(ctx, hints):
    return


def replay(ctx, data):
    for f in data.get("failing_inputs_on_real_code", []):
        print(f["what"][:500])
    for d in data.get("correspondence_disagreements", []):
        print("model/impl disagreement:", str(d)[:800])
    return 1
