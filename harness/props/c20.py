"""C20 — enumerations and the preset-shape table agree with the standard (translator + exhaustive tables)."""
from __future__ import annotations

from pathlib import Path

from lxml import etree

from harness import common, leangen as lg, reflect, xsd

ID = "C20"
LEAN_MODULES = ["PptxModel.Props.C20", "PptxModel.GenProps.C20"]
RULE = (
    "exhaustive: every distinct BaseXmlEnum subclass found by reflection over pptx.enum.* (aliases collapse by identity), "
    "every member with an XML value; the schema simple type of each enumeration resolved through the attribute "
    "declarations of the registered element classes and the shipped XSDs; every autoshape_types row against "
    "presetShapeDefinitions.xml; every auto-shape type added to a slide and read back; every chart type the writer "
    "supports added and chart.chart_type read back.  Non-trivial = distinct (enumeration, member) / table row."
)
ASSUMPTIONS = [
    "presetShapeDefinitions.xml as shipped defines 'upDownArrow' twice and no 'upArrow' (ST_ShapeType has both): the first "
    "duplicated block is read as the missing 'upArrow' (both blocks carry the same avLst); standard's erratum, recorded",
    "an enumeration whose attribute type is not an enumeration in the schema (MSO_LANGUAGE_ID: xsd:string) has no schema-side obligation",
]
TRUSTED = ["harness/props/c20.py translator (reflection over live enum classes, XSD enumeration extraction)"]

A_NS = "http://schemas.openxmlformats.org/drawingml/2006/main"
GEN = common.LEAN / "PptxModel" / "Gen" / "C20.lean"
GENP = common.LEAN / "PptxModel" / "GenProps" / "C20.lean"


def enum_schema_types(S):
    """enum class -> set of XSD simple-type qnames, via attribute declarations on registered classes"""
    reg = reflect.registered_classes()
    tag_types = S.tag_types()
    out = {}
    for tag, cls in reg.items():
        for prop, attr, st, kind, default in reflect.attr_decls(cls):
            from pptx.enum.base import BaseXmlEnum

            if isinstance(st, type) and issubclass(st, BaseXmlEnum):
                for tname in tag_types.get(tag, ()):
                    if tname in S.types and S.types[tname].tag == xsd.q("complexType"):
                        a = S.attributes(tname).get(attr)
                        if a and a[0]:
                            out.setdefault(st, set()).add(a[0])
    return out


def collect():
    from pptx.enum.shapes import MSO_SHAPE
    from pptx.spec import autoshape_types

    S = xsd.load(common.REPO)
    schema_of = enum_schema_types(S)
    enums = []
    for cls, names in reflect.xml_enums():
        members = [m for m in cls if m.xml_value]
        stypes = sorted(schema_of.get(cls, ()))
        schema = None
        for t in stypes:
            si = S.simple(t)
            if si.enums is not None:
                schema = sorted(set((schema or []) + si.enums))
        enums.append({"cls": cls, "name": cls.__name__, "aliases": names, "members": members, "schema": schema,
                      "schema_types": [t[1] for t in stypes]})
    # presets
    f = common.REPO / "spec/ISO-IEC-29500-1/schemas/dml-geometries/OfficeOpenXML-DrawingMLGeometries/presetShapeDefinitions.xml"
    root = etree.parse(str(f)).getroot()
    presets, dup = {}, []
    for el in root:
        name = etree.QName(el).localname
        av = []
        avl = el.find("{%s}avLst" % A_NS)
        if avl is not None:
            for gd in avl:
                fm = gd.get("fmla", "")
                av.append((gd.get("name"), int(fm.split()[1]) if fm.startswith("val ") else None))
        if name in presets:
            dup.append((name, av))
        else:
            presets[name] = av
    shape_types = S.simple((A_NS, "ST_ShapeType")).enums
    missing = [n for n in shape_types if n not in presets]
    erratum = []
    for n, (dn, av) in zip(missing, dup):
        presets[n] = presets[dn]  # first duplicated block stands for the missing name
        erratum.append((n, dn))
    autos = [(m, m.xml_value, list(autoshape_types[m]["avLst"])) for m in MSO_SHAPE if m in autoshape_types]
    no_row = [m.name for m in MSO_SHAPE if m not in autoshape_types]
    return enums, presets, autos, erratum, no_row


def declared_members(cls):
    """(name, int value, token) for each `NAME = (int, "token", ...)` assignment in the enum's class body"""
    import ast
    import inspect
    import textwrap

    try:
        tree = ast.parse(textwrap.dedent(inspect.getsource(cls)))
    except (OSError, SyntaxError):
        return []
    out = []
    for node in tree.body[0].body:
        if isinstance(node, ast.Assign) and len(node.targets) == 1 and isinstance(node.targets[0], ast.Name) and isinstance(node.value, ast.Tuple):
            el = node.value.elts
            if len(el) >= 2 and isinstance(el[0], (ast.Constant, ast.UnaryOp)) and isinstance(el[1], ast.Constant):
                try:
                    v = ast.literal_eval(el[0])
                except Exception:
                    continue
                out.append((node.targets[0].id, v, el[1].value))
    return out


def listed_dups():
    out = {}
    for e in common.load_known():
        if e.get("kind") == "finding" and e.get("property") == "C20" and e.get("key", "").startswith("enum-dup:"):
            en, mem = e["key"][len("enum-dup:"):].split(".")
            out.setdefault(en, set()).add(mem)
    return out


def translate(ctx):
    common.use_repo()
    enums, presets, autos, erratum, no_row = collect()
    listed = listed_dups()
    g = ["-- GENERATED by harness/props/c20.py from /repo's live enum classes, spec.py, XSDs and presetShapeDefinitions.xml",
         "import PptxModel.Model.Tables", "namespace Pptx.Gen.C20", "open Pptx.Tables", ""]
    p = ["-- GENERATED obligations over Gen/C20.lean; closed by kernel evaluation (`decide +kernel`, no axioms)",
         "import PptxModel.Gen.C20", "import PptxModel.Props.C20", "set_option maxRecDepth 100000",
         "namespace Pptx.GenC20", "open Pptx.Tables Pptx.Gen.C20 Pptx.C20", ""]
    for e in enums:
        n = lg.ident(e["name"])
        toks = [m.xml_value for m in e["members"]]
        lst = [i for i, m in enumerate(e["members"]) if m.name in listed.get(e["name"], ())]
        g.append(lg.chunked_def(f"{n}_all", "Tok", [lg.tok(t) for t in toks]))
        g.append(f"def {n}_listed : List Nat := {lg.nat_list(lst)}\n")
        p.append(f"/-- tokens of {e['name']} ({len(toks)} members with an XML value) are pairwise distinct, apart from the members listed as known findings -/")
        p.append(f"theorem {n}_distinct : nodupB (dropIdxs {n}_all {n}_listed) = true := by decide +kernel\n")
        p.append(f"theorem {n}_roundtrip (i : Nat) (hi : i < (dropIdxs {n}_all {n}_listed).length) :\n"
                 f"    findIdx (dropIdxs {n}_all {n}_listed) (dropIdxs {n}_all {n}_listed)[i] = some i :=\n"
                 f"  roundtrip_of_nodup _ (nodupB_sound _ {n}_distinct) i hi\n")
        if lst:
            p.append(f"/-- the listed members really are later duplicates (the finding is a fact of the table, not an excuse) -/")
            p.append(f"theorem {n}_listed_are_later_duplicates : laterDupB {n}_all {n}_listed = true := by decide +kernel\n")
        if e["schema"] is not None:
            g.append(lg.chunked_def(f"{n}_schema", "Tok", [lg.tok(t) for t in e["schema"]]))
            p.append(f"/-- every token of {e['name']} is in the schema enumeration {'/'.join(e['schema_types'])} -/")
            p.append(f"theorem {n}_in_schema : subsetB {n}_all {n}_schema = true := by decide +kernel\n")

    def avrow(av):
        return "[" + ", ".join(f"({lg.tok(a)}, ({v} : Int))" for a, v in av) + "]"

    g.append(lg.chunked_def("presets", "Tok × List (Tok × Int)",
                            [f"({lg.tok(k)}, {avrow([(a, v if v is not None else -999999999) for a, v in av])})" for k, av in sorted(presets.items())]))
    g.append(lg.chunked_def("autoshapes", "Tok × List (Tok × Int)", [f"({lg.tok(prst)}, {avrow(av)})" for m, prst, av in autos]))
    g.append("end Pptx.Gen.C20\n")
    p.append("/-- every auto-shape type's preset name is defined in presetShapeDefinitions.xml and its adjustment names, order\n"
             "    and default values equal the definition's -/")
    p.append("theorem autoshapes_match_presets :\n    autoshapes.all (fun r => lookup r.1 presets == some r.2) = true := by decide +kernel\n")
    p.append("end Pptx.GenC20\n")
    lg.write_if_changed(GEN, "\n".join(g))
    lg.write_if_changed(GENP, "\n".join(p))
    return enums, presets, autos, erratum, no_row


def correspond(ctx):
    """dynamic cross-check of the translator + the property evaluated on the real objects"""
    from pptx import Presentation
    from pptx.chart.data import BubbleChartData, CategoryChartData, XyChartData
    from pptx.enum.chart import XL_CHART_TYPE
    from pptx.enum.shapes import MSO_SHAPE
    from pptx.shapes.autoshape import AutoShapeType

    # "maps to a distinct token and back to itself" as a user meets it: every member assigned through every
    # enumeration-valued property of the object model and read back through it (members whose integer value is 0 or 1
    # are where a consumer's truthiness or `in (True, False)` test goes wrong while the tables themselves are right)
    from harness.props.c11 import proxy_enum_sweep
    def keyfn(p, cls, m):
        # a member that shares its XML token with an earlier member of the same enumeration is the listed `enum-dup`
        # finding, whichever property exposes it
        toks = [x.xml_value for x in cls if getattr(x, "xml_value", None)]
        first = next((x for x in cls if getattr(x, "xml_value", None) == getattr(m, "xml_value", None)), m)
        if getattr(m, "xml_value", None) and toks.count(m.xml_value) > 1 and first is not m:
            return f"enum-dup:{cls.__name__}.{m.name}"
        return f"enum-proxy-readback:{p.kind}.{p.name}:{m.name}"
    proxy_enum_sweep(ctx, keyfn)
    enums, presets, autos, erratum, no_row = collect()
    for n, dn in erratum:
        ctx.note(f"standard's erratum: preset '{n}' missing, duplicated '{dn}' block used")
    for e in enums:
        cls = e["cls"]
        for m in e["members"]:
            ctx.case(key=(e["name"], m.name))
            ctx.count("enum-member")
            tok = cls.to_xml(m)
            back = cls.from_xml(tok)
            if tok != m.xml_value:
                ctx.disagree("enum-to_xml", [e["name"], m.name], tok, m.xml_value)
            if back is not m:
                ctx.fail(f"enum-dup:{e['name']}.{m.name}", f"{e['name']}.{m.name} -> {tok!r} -> {e['name']}.{back.name} (token shared; does not map back to itself)",
                         {"enum": e["name"], "member": m.name})
            if e["schema"] is not None and tok not in e["schema"]:
                ctx.fail(f"enum-token-not-in-schema:{e['name']}.{m.name}", f"token {tok!r} of {e['name']}.{m.name} is not in {e['schema_types']}",
                         {"enum": e["name"], "member": m.name})
        ctx.count("enum-with-schema" if e["schema"] is not None else "enum-without-schema-enumeration")
        # every NAME = (value, "token", ...) written in the class body - aliases included - must resolve to a member
        # carrying that token (two declarations with one integer value silently collapse into an alias)
        for name, value, tok in declared_members(cls):
            ctx.case(key=(e["name"], "decl", name)); ctx.count("enum-declared-name")
            mem = cls.__members__.get(name)
            if mem is None or (mem.xml_value or "") != (tok or "") or mem.value != value:
                ctx.fail(f"enum-decl-collapsed:{e['name']}.{name}",
                         f"{e['name']}.{name} is declared as ({value}, {tok!r}) but resolves to {mem.name if mem is not None else None} "
                         f"({getattr(mem, 'value', None)}, {getattr(mem, 'xml_value', None)!r})", {"enum": e["name"], "member": name})
    for nm in no_row:
        ctx.fail("autoshape-no-row:" + nm, f"MSO_SHAPE.{nm} has no autoshape_types row", {"member": nm})
    prs = Presentation()
    slide = prs.slides.add_slide(prs.slide_layouts[6])
    for m, prst, av in autos:
        ctx.case(key=("autoshape", m.name)); ctx.count("autoshape")
        want = presets.get(prst)
        if want is None:
            ctx.fail("preset-missing:" + m.name, f"MSO_SHAPE.{m.name} -> prst {prst!r} not in presetShapeDefinitions.xml", {"member": m.name})
        elif [(a, v) for a, v in want] != [(a, v) for a, v in av]:
            ctx.fail("preset-avlst:" + m.name, f"MSO_SHAPE.{m.name} ({prst}) avLst {av} but the standard defines {want}", {"member": m.name})
        try:
            sh = slide.shapes.add_shape(m, 0, 0, 100, 100)
        except Exception as e:  # noqa
            ctx.fail("autoshape-add-raises:" + m.name, f"MSO_SHAPE.{m.name} cannot be added to a slide: {type(e).__name__}: {str(e)[:120]}", {"member": m.name})
            continue
        got = sh.auto_shape_type
        if got is not m and MSO_SHAPE.from_xml(prst) is m:
            ctx.fail("autoshape-readback:" + m.name, f"added MSO_SHAPE.{m.name}, read back {got}", {"member": m.name})
        if len(sh.adjustments) != len(av):
            ctx.disagree("adjustment-count", m.name, len(sh.adjustments), len(av))
        # the values a fresh shape reports are the definition's defaults - also for the SECOND shape of a type, after the
        # first one's adjustments were changed (the definition is shared by all shapes of the type, the values are not)
        dflt = [v / 100000.0 for _, v in av]
        first = [sh.adjustments[i] for i in range(len(sh.adjustments))]
        if len(first) == len(dflt) and any(abs(a - b) > 1e-9 for a, b in zip(first, dflt)):
            ctx.fail("adjustment-defaults:" + m.name, f"a new MSO_SHAPE.{m.name} reports adjustments {first}, the definition's defaults are {dflt}", {"member": m.name})
        for i in range(len(sh.adjustments)):
            sh.adjustments[i] = 0.123 + i / 10.0
        try:
            sh2 = slide.shapes.add_shape(m, 0, 0, 100, 100)
            second = [sh2.adjustments[i] for i in range(len(sh2.adjustments))]
            if len(second) == len(dflt) and any(abs(a - b) > 1e-9 for a, b in zip(second, dflt)):
                ctx.fail("adjustment-defaults:second-shape", f"a second MSO_SHAPE.{m.name}, added after the first one's adjustments were set, reports {second}; "
                         f"the definition's defaults are {dflt}", {"member": m.name})
            if sh2.auto_shape_type is not got:
                ctx.fail("autoshape-readback:" + m.name, f"a second MSO_SHAPE.{m.name} reads back {sh2.auto_shape_type}", {"member": m.name})
            sh2._element.getparent().remove(sh2._element)
            ctx.count("autoshape-second-shape")
        except Exception as e:  # noqa
            ctx.fail("autoshape-add-raises:" + m.name, f"a second MSO_SHAPE.{m.name} cannot be added: {type(e).__name__}: {str(e)[:120]}", {"member": m.name})
        sh._element.getparent().remove(sh._element)
    # chart types: writer / PlotTypeInspector inverse
    for ct in XL_CHART_TYPE:
        ctx.case(key=("chart", ct.name))
        if "BUBBLE" in ct.name:
            cd = BubbleChartData(); s = cd.add_series("s"); s.add_data_point(1, 2, 3)
        elif "XY" in ct.name or "SCATTER" in ct.name:
            cd = XyChartData(); s = cd.add_series("s"); s.add_data_point(1, 2)
        else:
            cd = CategoryChartData(); cd.categories = ["a", "b"]; cd.add_series("s", [1, 2])
        try:
            gf = slide.shapes.add_chart(ct, 0, 0, 100, 100, cd)
        except NotImplementedError:
            ctx.count("chart-type-not-writable")
            continue
        ctx.count("chart-type-writable")
        got = gf.chart.chart_type
        if got != ct:
            ctx.fail("chart-type-readback:" + ct.name, f"added chart {ct.name}, chart.chart_type reads {got}", {"chart": ct.name})
        gf._element.getparent().remove(gf._element)
    # the same chart-data object used for every chart type of its kind, one after the other
    shared = {}
    for ct in XL_CHART_TYPE:
        kind = "bubble" if "BUBBLE" in ct.name else "xy" if ("XY" in ct.name or "SCATTER" in ct.name) else "cat"
        if kind not in shared:
            if kind == "bubble":
                cd = BubbleChartData(); s_ = cd.add_series("s"); s_.add_data_point(1, 2, 3)
            elif kind == "xy":
                cd = XyChartData(); s_ = cd.add_series("s"); s_.add_data_point(1, 2)
            else:
                cd = CategoryChartData(); cd.categories = ["a", "b"]; cd.add_series("s", [1, 2])
            shared[kind] = cd
        ctx.case(key=("chart-shared-data", ct.name))
        try:
            gf = slide.shapes.add_chart(ct, 0, 0, 100, 100, shared[kind])
        except NotImplementedError:
            continue
        got = gf.chart.chart_type
        if got != ct:
            ctx.fail("chart-type-readback:shared-data-object", f"added chart {ct.name} from a chart-data object already used for other chart types: "
                     f"chart.chart_type reads {got}", {"chart": ct.name})
        gf._element.getparent().remove(gf._element)
        ctx.count("chart-type-shared-data-object")
    ctx.traces = ctx.evaluations
    ctx.sample({"enum": enums[0]["name"], "members": [(m.name, m.xml_value) for m in enums[0]["members"]][:4], "schema": enums[0]["schema_types"]})
    ctx.sample({"autoshape": autos[12][0].name, "prst": autos[12][1], "avLst": autos[12][2], "standard": presets.get(autos[12][1])})
    ctx.extra["tables"] = {"enumerations": len(enums), "members_with_xml_value": sum(len(e["members"]) for e in enums),
                           "autoshape_rows": len(autos), "preset_definitions": len(presets)}


def search(ctx, hints):
    if not ctx.evaluations:
        correspond(ctx)


def replay(ctx, data):
    for f in data.get("failing_inputs_on_real_code", []):
        print(f["what"])
    return 1
