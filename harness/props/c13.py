"""C13 — a new slide mirrors its layout's placeholders and inherits their geometry."""
from __future__ import annotations

import copy
import io

from lxml import etree

from harness import common
from harness.common import enc, enc_ints, enc_list

ID = "C13"
LEAN_MODULES = ["PptxModel.Props.C13"]
RULE = (
    "every slide layout of every deck of the repository corpus, plus GENERATED layouts (a layout's shape tree rewritten "
    "with seeded placeholder populations: every ST_PlaceholderType value, duplicate types, missing idx, vertical "
    "orientation, half/quarter size, with and without own geometry, shapes already carrying look-alike names) x 1..3 "
    "repeated add_slide calls interleaved with edits of other slides; notes slides for decks with and without a notes "
    "master.  Observed: (type, idx, orient, sz) sequence, ids and names of the new placeholders (compared with the "
    "model), effective left/top/width/height vs layout / master, position of the slide, its layout relationship, C14N of "
    "every other slide before/after.  Non-trivial = distinct (deck, layout population, step)."
)
ASSUMPTIONS = [
    "the basename table is read off the live code (ph_basename over every placeholder type) and passed to the model",
    "a layout placeholder type without a basename entry (sldImg on a slide layout) makes add_slide raise KeyError: the "
    "model is partial in the same way; generated layouts avoid it except where the finding is exercised",
]
TRUSTED = ["layout rewriting in the harness (builds inputs only)"]

P_NS = "http://schemas.openxmlformats.org/presentationml/2006/main"
A_NS = "http://schemas.openxmlformats.org/drawingml/2006/main"
ALL_TYPES = ["title", "body", "ctrTitle", "subTitle", "dt", "sldNum", "ftr", "hdr", "obj", "chart", "tbl", "clipArt", "dgm", "media", "sldImg", "pic"]


def basenames(shapes_cls_instance):
    from pptx.enum.shapes import PP_PLACEHOLDER

    out = []
    for m in PP_PLACEHOLDER:
        if not m.xml_value:
            continue
        try:
            out.append((m.xml_value, shapes_cls_instance.ph_basename(m)))
        except KeyError:
            pass
    return out


PH_XPATH = ("./*[p:nvSpPr/p:nvPr/p:ph or p:nvPicPr/p:nvPr/p:ph or p:nvGraphicFramePr/p:nvPr/p:ph or p:nvCxnSpPr/p:nvPr/p:ph "
            "or p:nvGrpSpPr/p:nvPr/p:ph]")


def ph_elms(spTree):
    """the shape-tree children that carry a p:ph, whatever kind of shape element they are (read from the XML, not
    through the library's own iterator)"""
    return etree.ElementBase.xpath(spTree, PH_XPATH, namespaces={"p": P_NS})


def ph_of(sp):
    return etree.ElementBase.xpath(sp, "./*/p:nvPr/p:ph", namespaces={"p": P_NS})[0]


def key_of(sp):
    ph = ph_of(sp)
    return (ph.get("type", "obj"), int(ph.get("idx", "0")), ph.get("orient", "horz") == "vert", ph.get("sz", "full"))


MASTER_TYPE = {"title": "title", "ctrTitle": "title", "dt": "dt", "ftr": "ftr", "sldNum": "sldNum", "body": "body", "chart": "body",
               "clipArt": "body", "dgm": "body", "media": "body", "obj": "body", "pic": "body", "subTitle": "body", "tbl": "body"}


def xfrm_of(sp):
    """(x, y, cx, cy) read directly from p:spPr/a:xfrm of a placeholder element; None per missing value"""
    spPr = sp.find("{%s}spPr" % P_NS)
    xfrm = spPr.find("{%s}xfrm" % A_NS) if spPr is not None else None
    if sp.tag == "{%s}graphicFrame" % P_NS:
        xfrm = sp.find("{%s}xfrm" % P_NS)
    if xfrm is None:
        return (None, None, None, None)
    off, ext = xfrm.find("{%s}off" % A_NS), xfrm.find("{%s}ext" % A_NS)
    gi = lambda e, a: None if e is None or e.get(a) is None else int(e.get(a))  # noqa: E731
    return (gi(off, "x"), gi(off, "y"), gi(ext, "cx"), gi(ext, "cy"))


def expected_geometry(own, idx, lay_rows, mas_rows):
    out = []
    for a in range(4):
        v = own[a]
        if v is None:
            lay = next(((t, x) for i, t, x in lay_rows if i == idx), None)
            if lay is not None:
                v = lay[1][a]
                if v is None and lay[0] in MASTER_TYPE:
                    m = next((x for t, x in mas_rows if t == MASTER_TYPE[lay[0]]), None)
                    v = None if m is None else m[a]
        out.append(v)
    return tuple(out)


def gen_notes_master(rng, prs):
    """rewrite the placeholders of the notes master (XML level, to build the INPUT): seeded order, duplicates, every
    notes placeholder type"""
    from pptx.oxml import parse_xml

    nm = prs.notes_master
    spTree = nm.shapes._spTree
    for sp in list(ph_elms(spTree)):
        spTree.remove(sp)
    types = [rng.choice(["hdr", "dt", "sldImg", "body", "ftr", "sldNum"]) for _ in range(rng.randint(0, 7))]
    for i, ty in enumerate(types):
        geom = "" if rng.random() < 0.2 else f'<a:xfrm><a:off x="{rng.choice([0, rng.randint(0, 10**6)])}" y="{rng.choice([0, rng.randint(0, 10**6)])}"/><a:ext cx="{rng.randint(1, 10**6)}" cy="{rng.randint(1, 10**6)}"/></a:xfrm>'
        idx = rng.choice(["", f' idx="{i + 1}"'])
        sz = rng.choice(["", ' sz="quarter"'])
        xml = (f'<p:sp xmlns:p="{P_NS}" xmlns:a="{A_NS}"><p:nvSpPr><p:cNvPr id="{i + 2}" name="{rng.choice(["Notes Placeholder", "Slide Image Placeholder", "P"])} {rng.randint(1, 5)}"/><p:cNvSpPr/>'
               f'<p:nvPr><p:ph type="{ty}"{sz}{idx}/></p:nvPr></p:nvSpPr><p:spPr>{geom}</p:spPr>'
               + ("" if ty == "sldImg" else '<p:txBody><a:bodyPr/><a:lstStyle/><a:p/></p:txBody>') + '</p:sp>')
        spTree.append(parse_xml(xml))


def gen_layout_population(rng, layout, top=False):
    """rewrite the placeholders of a layout (XML level, to build the INPUT deck)"""
    from pptx.oxml import parse_xml

    spTree = layout.shapes._spTree
    for sp in list(ph_elms(spTree)):
        spTree.remove(sp)
    n = rng.randint(1 if top else 0, 7)
    used = []
    top_at = rng.randrange(n) if top else -1   # one placeholder at the largest idx the schema has (xsd:unsignedInt)
    for i in range(n):
        ty = rng.choice([t for t in ALL_TYPES if t != "sldImg"])
        if used and rng.random() < 0.3:
            ty = rng.choice(used)  # duplicate type
        used.append(ty)
        idx = rng.choice([None, i + 10, i + 10, 0, 4294967295 if rng.random() < 0.05 else i + 20])
        if i == top_at:
            idx = 4294967295
        orient = ' orient="vert"' if rng.random() < 0.2 else ""
        sz = rng.choice(["", "", ' sz="half"', ' sz="quarter"'])
        geom = "" if rng.random() < 0.3 else f'<a:xfrm><a:off x="{rng.choice([0, rng.randint(0, 10**6)])}" y="{rng.choice([0, rng.randint(0, 10**6)])}"/><a:ext cx="{rng.randint(1, 10**6)}" cy="{rng.randint(1, 10**6)}"/></a:xfrm>'
        name = rng.choice(["Title %d" % rng.randint(1, 9), "Text Placeholder %d" % rng.randint(1, 9), "Content Placeholder 2", "P%d" % i, "Picture Placeholder %d" % rng.randint(1, 9)])
        typ = "" if ty == "obj" and rng.random() < 0.5 else f' type="{ty}"'
        kind = rng.random()
        phx = f'<p:ph{typ}{orient}{sz}{"" if idx is None else " idx=%s%d%s" % (chr(34), idx, chr(34))}/>'
        if kind < 0.1:
            # a placeholder that is a p:pic (other producers write a filled picture placeholder into a layout)
            spTree.append(parse_xml(
                f'<p:pic xmlns:p="{P_NS}" xmlns:a="{A_NS}"><p:nvPicPr><p:cNvPr id="{i + 2}" name="{name}"/><p:cNvPicPr/><p:nvPr>{phx}</p:nvPr></p:nvPicPr>'
                f'<p:blipFill><a:blip/><a:stretch><a:fillRect/></a:stretch></p:blipFill><p:spPr>{geom}</p:spPr></p:pic>'))
            continue
        if kind < 0.2:
            gx = geom.replace("a:xfrm", "p:xfrm") if geom else '<p:xfrm><a:off x="0" y="0"/><a:ext cx="5" cy="5"/></p:xfrm>'
            spTree.append(parse_xml(
                f'<p:graphicFrame xmlns:p="{P_NS}" xmlns:a="{A_NS}"><p:nvGraphicFramePr><p:cNvPr id="{i + 2}" name="{name}"/><p:cNvGraphicFramePr/>'
                f'<p:nvPr>{phx}</p:nvPr></p:nvGraphicFramePr>{gx}<a:graphic><a:graphicData uri="http://schemas.openxmlformats.org/drawingml/2006/table">'
                f'<a:tbl><a:tblGrid/></a:tbl></a:graphicData></a:graphic></p:graphicFrame>'))
            continue
        xml = (f'<p:sp xmlns:p="{P_NS}" xmlns:a="{A_NS}"><p:nvSpPr><p:cNvPr id="{i + 2}" name="{name}"/><p:cNvSpPr><a:spLocks noGrp="1"/></p:cNvSpPr>'
               f'<p:nvPr><p:ph{typ}{orient}{sz}{"" if idx is None else " idx=%s%d%s" % (chr(34), idx, chr(34))}/></p:nvPr></p:nvSpPr><p:spPr>{geom}</p:spPr>'
               f'<p:txBody><a:bodyPr/><a:lstStyle/><a:p/></p:txBody></p:sp>')
        spTree.append(parse_xml(xml))


def check_add_slide(ctx, prs, layout, rng, label, lines, impl, metas):
    from pptx.oxml.ns import qn

    others = [(s, etree.tostring(s.part._element, method="c14n")) for s in prs.slides]
    parts_before = [s.part for s in prs.slides]
    n_before = len(prs.slides)
    cloneable = [sp for sp in ph_elms(layout.shapes._spTree) if key_of(sp)[0] not in ("dt", "ftr", "sldNum")]
    want_keys = [key_of(sp) for sp in cloneable]
    case = {"deck": label, "layout": layout.name, "layout_placeholders": [str(k) for k in want_keys]}
    try:
        slide = prs.slides.add_slide(layout)
    except KeyError as e:
        if any(k[0] == "sldImg" for k in want_keys):
            ctx.fail("add-slide-keyerror:sldImg", f"{label}/{layout.name}: layout has a slide-image placeholder; add_slide raised KeyError {e}", case)
        else:
            ctx.fail("add-slide-raises", f"{label}/{layout.name}: add_slide raised KeyError {e}", case)
        return None
    except Exception as e:  # noqa
        ctx.fail("add-slide-raises", f"{label}/{layout.name}: add_slide raised {type(e).__name__}: {str(e)[:120]}", case)
        return None
    ctx.case(key=(label, layout.name, tuple(want_keys), n_before))
    ctx.count("add_slide"); ctx.count("layout-placeholders", len(want_keys))
    got = [sp for sp in ph_elms(slide.shapes._spTree)]
    got_keys = [key_of(sp) for sp in got]
    if got_keys != want_keys:
        ctx.fail("placeholders-not-mirrored", f"{label}/{layout.name}: slide placeholders {got_keys}, layout's cloneable placeholders {want_keys}", case)
    # the same through the object model: iterating slide.placeholders delivers exactly these elements - in idx order, as
    # documented (a stable sort of the document order) -; its length agrees; looking one up by idx delivers the first
    # element carrying that idx
    try:
        api = [ph._element for ph in slide.placeholders]
        by_idx = sorted(got, key=lambda sp: key_of(sp)[1])
        if len(api) != len(got) or any(a is not b for a, b in zip(api, by_idx)) or len(slide.placeholders) != len(got):
            ctx.fail("placeholders-api-not-mirrored", f"{label}/{layout.name}: slide.placeholders iterates {[key_of(e) for e in api]} (len() = {len(slide.placeholders)}), "
                     f"the slide's placeholder elements are {got_keys}", case)
        for k in {key_of(sp)[1] for sp in got}:
            first = next(sp for sp in got if key_of(sp)[1] == k)
            if slide.placeholders[k]._element is not first:
                ctx.fail("placeholders-api-lookup", f"{label}/{layout.name}: slide.placeholders[{k}] is not the first placeholder with that idx", case)
    except Exception as e:  # noqa
        ctx.fail("placeholders-api-raises", f"{label}/{layout.name}: reading slide.placeholders raised {type(e).__name__}: {str(e)[:100]}", case)
    names = [str(n) for n in slide.shapes._spTree.xpath("//p:cNvPr/@name")]
    ph_names = [sp.nvSpPr.cNvPr.get("name") for sp in got]
    if len(set(ph_names)) != len(ph_names):
        ctx.fail("placeholder-names-not-unique", f"{label}/{layout.name}: names {ph_names}", case)
    ids = [int(x) for x in slide.shapes._spTree.xpath("//@id") if x.isdigit()]
    if len(set(ids)) != len(ids):
        ctx.fail("shape-ids-not-unique", f"{label}/{layout.name}: ids {ids}", case)
    # model: ids / names assigned
    bn = basenames(slide.shapes)
    line = "c13.clone %s %s %s %s" % (";".join(f"{enc(a)}/{enc(b)}" for a, b in bn), enc_ints([1]), enc_list([""]),
                                      ";".join(f"{enc(k[0])}/{k[1]}/{int(k[2])}/{enc(k[3])}" for k in want_keys) or "!")
    lines.append(line)
    impl.append(";".join(f"{sp.shape_id}/{enc(sp.nvSpPr.cNvPr.get('name'))}" for sp in got) or "!")
    metas.append(case)
    # inheritance: each slide placeholder reports, per attribute, its own value, else that of the FIRST layout
    # placeholder with the same idx, else that of the FIRST master placeholder of the mapped type -- computed here from
    # the raw XML (not through the library's layout objects) and by the Lean model
    lay_rows = [(key_of(sp)[1], key_of(sp)[0], xfrm_of(sp)) for sp in ph_elms(layout.shapes._spTree)]
    try:
        mas_rows = [(key_of(sp)[0], xfrm_of(sp)) for sp in ph_elms(layout.slide_master.shapes._spTree)]
    except KeyError:
        # a corpus deck whose layout part has no slide-master relationship (a fragment used by the acceptance tests): nothing
        # to inherit from above the layout; geometry that needs the master is not judged there
        mas_rows = None
    lay_by_idx = {}
    for sp in ph_elms(layout.shapes._spTree):
        lay_by_idx.setdefault(key_of(sp)[1], sp)
    for ph in (slide.placeholders if mas_rows is not None else []):
        own = xfrm_of(ph.element)
        gotg = (ph.left, ph.top, ph.width, ph.height)
        lay_el = lay_by_idx.get(ph.element.ph_idx)
        if lay_el is not None and lay_el.tag != "{%s}sp" % P_NS:
            # the layout counterpart is a p:pic / p:graphicFrame placeholder: the library has no layout-placeholder class
            # for these, so what the layout element does not give is not looked up on the master (recorded finding);
            # what it does give is reported
            want = expected_geometry(own, ph.element.ph_idx, lay_rows, mas_rows)
            lay_own = xfrm_of(lay_el)
            direct = tuple(o_ if o_ is not None else l_ for o_, l_ in zip(own, lay_own))
            ctx.count("layout-counterpart-not-p:sp")
            if gotg != want:
                if gotg == direct:
                    ctx.fail("inherited-geometry:layout-placeholder-not-p:sp", f"{label}/{layout.name}: placeholder idx={ph.element.ph_idx}, whose layout counterpart is a "
                             f"<{etree.QName(lay_el).localname}> without its own position/size, reports {gotg}; the master gives {want}", case)
                else:
                    ctx.fail("inherited-geometry", f"{label}/{layout.name}: placeholder idx={ph.element.ph_idx} reports {gotg}; own/layout/master XML gives {want}", case)
            continue
        for a, attr in enumerate(("left", "top", "width", "height")):
            o = lambda v: "n" if v is None else str(int(v))  # noqa: E731
            lines.append("c13.rep %s %d %s %s" % (o(own[a]), ph.element.ph_idx,
                                                  ";".join(f"{i}/{enc(t)}/{o(x[a])}" for i, t, x in lay_rows) or "!",
                                                  ";".join(f"{enc(t)}/{o(x[a])}" for t, x in mas_rows) or "!"))
            impl.append(o(gotg[a])); metas.append(dict(case, attr=attr, idx=ph.element.ph_idx))
        want = expected_geometry(own, ph.element.ph_idx, lay_rows, mas_rows)
        if gotg != want:
            ctx.fail("inherited-geometry", f"{label}/{layout.name}: placeholder idx={ph.element.ph_idx} reports {gotg}; own/layout/master XML gives {want}", case)
        r_ = rng.random()
        if r_ < 0.3:
            # "until overridden": assigning values (0 included) makes the placeholder report them
            new = tuple(rng.choice([0, 0, 7, rng.randint(0, 10**6)]) for _ in range(4))
            ph.left, ph.top, ph.width, ph.height = new
            if (ph.left, ph.top, ph.width, ph.height) != new:
                ctx.fail("override-geometry", f"{label}/{layout.name}: geometry overridden with {new} reads {(ph.left, ph.top, ph.width, ph.height)}", case)
        elif r_ < 0.6 and gotg == want and hasattr(ph, "rotation"):
            # one value at a time, in any order, rotation in between: what was not assigned keeps reporting the inherited value
            attrs = ["left", "top", "width", "height"]
            steps = rng.sample(attrs + ["rotation"], rng.randint(1, 4)) + [rng.choice(attrs) for _ in range(rng.randint(0, 2))]
            cur = dict(zip(attrs, want))
            hist = []
            o_ = lambda v: "n" if v is None else str(int(v))  # noqa: E731
            inh = expected_geometry((None, None, None, None), ph.element.ph_idx, lay_rows, mas_rows)
            m_ops, m_reads = [], []
            for a_ in steps:
                v_ = rng.choice([0, 7, rng.randint(1, 10**6)])
                try:
                    setattr(ph, a_, float(v_ % 360) if a_ == "rotation" else v_)
                except Exception as e:  # noqa
                    ctx.fail("override-geometry", f"{label}/{layout.name}: {a_} = {v_} raised {type(e).__name__}", case)
                    break
                hist.append((a_, v_))
                if a_ != "rotation":
                    cur[a_] = v_
                now = {x: getattr(ph, x) for x in attrs}
                if a_ != "rotation":
                    m_ops.append(f"{a_}:{v_}")
                    m_reads.append("/".join(o_(now[x]) for x in attrs))
                bad = {x: (now[x], cur[x]) for x in attrs if now[x] != cur[x] and not (cur[x] is None and now[x] in (0, None))}
                if bad:
                    ctx.fail("override-geometry:partial", f"{label}/{layout.name}: placeholder idx={ph.element.ph_idx} after {hist}: "
                             f"{ {k: v[0] for k, v in bad.items()} } reported, expected { {k: v[1] for k, v in bad.items()} } (assigned or inherited)", case)
                    break
            if m_ops:
                # the own a:xfrm store against the Lean model of `_set_dimension` (setDim / runDims)
                lines.append("c13.set %s %s %s" % ("/".join(o_(v) for v in own), "/".join(o_(v) for v in inh), ",".join(m_ops)))
                impl.append(";".join(m_reads)); metas.append(dict(case, what="one dimension at a time", idx=ph.element.ph_idx))
            ctx.count("partial-override-histories")
    if list(prs.slides)[-1].slide_id != slide.slide_id or len(prs.slides) != n_before + 1:
        ctx.fail("slide-not-last", f"{label}/{layout.name}: new slide is not the last in presentation order", case)
    parts_after = [s.part for s in prs.slides]
    if len(parts_after) != n_before + 1 or any(a is not b for a, b in zip(parts_after, parts_before)) or parts_after[-1] is not slide.part:
        ctx.fail("other-slide-touched", f"{label}/{layout.name}: the slides before the new one are no longer the same slide parts in the same order", case)
    pn = [str(p_.partname) for p_ in parts_after]
    if len(set(pn)) != len(pn):
        ctx.fail("other-slide-touched", f"{label}/{layout.name}: the new slide's part is named {pn[-1]}, the name of another slide's part ({pn}): one of them is lost on save", case)
    if slide.slide_layout.part is not layout.part:
        ctx.fail("slide-layout-relationship", f"{label}/{layout.name}: slide_layout is not the layout it was made from", case)
    for s, before in others:
        if etree.tostring(s.part._element, method="c14n") != before:
            ctx.fail("other-slide-touched", f"{label}/{layout.name}: adding a slide changed slide {s.slide_id}", case)
            break
    return slide


def check_notes(ctx, prs, slide, label, lines=None, impl=None, metas=None):
    case = {"deck": label, "what": "notes"}
    try:
        had_notes = slide.has_notes_slide
        ns = slide.notes_slide
    except Exception as e:  # noqa
        ctx.fail("notes-slide-raises", f"{label}: notes_slide raised {type(e).__name__}: {str(e)[:100]}", case)
        return
    nm = prs.notes_master
    want = [key_of(sp) for sp in ph_elms(nm.shapes._spTree) if key_of(sp)[0] in ("sldImg", "body", "sldNum")]
    got = [key_of(sp) for sp in ph_elms(ns.shapes._spTree)]
    try:
        sid = slide.slide_id
    except ValueError as e:
        ctx.fail("other-slide-touched", f"{label}: a slide added earlier is no longer among the presentation's slides ({e})", case)
        return
    ctx.case(key=(label, "notes", sid)); ctx.count("notes_slide")
    if got != want:
        ctx.fail("notes-not-mirrored", f"{label}: notes slide placeholders {got}, notes master's cloneable placeholders {want}", case)
    names = [sp.nvSpPr.cNvPr.get("name") for sp in ph_elms(ns.shapes._spTree)]
    if len(set(names)) != len(names):
        ctx.fail("notes-placeholder-names-not-unique", f"{label}: names {names}", case)
    if lines is not None and not had_notes and all(sp.tag == "{%s}sp" % P_NS for sp in ph_elms(ns.shapes._spTree)):
        # the ids and names given to the cloned placeholders, by the Lean model of clone_placeholder / _next_ph_name on the
        # notes slide's own base names (a new notes slide starts from the template: the shape tree's id 1, no names)
        bn = basenames(ns.shapes)
        lines.append("c13.clone %s %s %s %s" % (";".join(f"{enc(a)}/{enc(b)}" for a, b in bn), enc_ints([1]), enc_list([""]),
                                                ";".join(f"{enc(k[0])}/{k[1]}/{int(k[2])}/{enc(k[3])}" for k in want) or "!"))
        impl.append(";".join(f"{sp.shape_id}/{enc(sp.nvSpPr.cNvPr.get('name'))}" for sp in ph_elms(ns.shapes._spTree)) or "!")
        metas.append(dict(case, what="notes placeholders: ids and names"))
        ctx.count("notes-clone-model-lines")
    mas_rows = [(key_of(sp)[0], xfrm_of(sp)) for sp in ph_elms(nm.shapes._spTree)]
    for ph in ns.placeholders:
        ty = key_of(ph.element)[0]
        own = xfrm_of(ph.element)
        m = next((x for t, x in mas_rows if t == ty), (None,) * 4)
        want_g = tuple(own[a] if own[a] is not None else m[a] for a in range(4))
        got_g = (ph.left, ph.top, ph.width, ph.height)
        if got_g != want_g:
            ctx.fail("notes-inherited-geometry", f"{label}: notes placeholder {ty} reports {got_g}; own/notes-master XML gives {want_g}", case)


def rid_gap(data, rng):
    """the same deck with a numbering gap in ppt/_rels/presentation.xml.rels: a relationship the presentation XML does
    not refer to (view / presentation properties, table styles, printer settings) is dropped, as producers do"""
    import re
    import zipfile
    z = zipfile.ZipFile(io.BytesIO(data))
    pres = z.read("ppt/presentation.xml").decode("utf-8")
    rels = z.read("ppt/_rels/presentation.xml.rels").decode("utf-8")
    used = set(re.findall(r'r:id="([^"]+)"', pres))
    cands = [m for m in re.finditer(r'<Relationship [^>]*?/>', rels)
             if re.search(r'Id="([^"]+)"', m.group(0)).group(1) not in used and "theme" not in m.group(0)]
    if not cands:
        return data
    m = rng.choice(cands)
    rels = rels.replace(m.group(0), "")
    out = io.BytesIO()
    with zipfile.ZipFile(out, "w", zipfile.ZIP_DEFLATED) as zo:
        for n in z.namelist():
            zo.writestr(n, rels.encode("utf-8") if n == "ppt/_rels/presentation.xml.rels" else z.read(n))
    return out.getvalue()


def renumbered(data, rng):
    """the same deck as another producer numbers it: the relationships of the presentation part carry other numbers
    (slides low, as PowerPoint does, or shuffled), with unused numbers in between and above their count; every r:id
    in ppt/presentation.xml follows"""
    import re
    import zipfile
    z = zipfile.ZipFile(io.BytesIO(data))
    pres = z.read("ppt/presentation.xml").decode("utf-8")
    rels = z.read("ppt/_rels/presentation.xml.rels").decode("utf-8")
    ids = re.findall(r'<Relationship [^>]*?Id="([^"]+)"', rels)
    n = len(ids)
    nums = sorted(rng.sample(range(1, n + 1 + rng.randint(1, 3)), n))
    order = sorted(ids, key=lambda i: (0 if re.search(r'Id="%s"[^>]*slideMaster|slideMaster[^>]*Id="%s"' % (i, i), rels) else
                                       1 if re.search(r'Id="%s"[^>]*relationships/slide"|relationships/slide"[^>]*Id="%s"' % (i, i), rels) else 2,
                                       int(i[3:]) if i[3:].isdigit() else 0))
    if rng.random() < 0.3:
        rng.shuffle(order)
    m = {old: "rId%d" % k for old, k in zip(order, nums)}
    rels = re.sub(r'Id="([^"]+)"', lambda g: 'Id="%s"' % m[g.group(1)], rels)
    pres = re.sub(r'r:id="([^"]+)"', lambda g: 'r:id="%s"' % m.get(g.group(1), g.group(1)), pres)
    out = io.BytesIO()
    with zipfile.ZipFile(out, "w", zipfile.ZIP_DEFLATED) as zo:
        for nm in z.namelist():
            zo.writestr(nm, rels.encode("utf-8") if nm == "ppt/_rels/presentation.xml.rels" else
                        pres.encode("utf-8") if nm == "ppt/presentation.xml" else z.read(nm))
    return out.getvalue()


def correspond(ctx):
    from pptx import Presentation
    from pptx.oxml import parse_xml

    rng = ctx.rng
    lines, impl, metas = [], [], []
    decks = common.corpus_decks()
    if ctx.quick:
        decks = decks[:: max(1, len(decks) // 14)]
    for deck in decks:
        try:
            prs = Presentation(str(deck))
            layouts = list(prs.slide_layouts)
        except Exception:
            continue
        for layout in layouts[: (4 if ctx.quick else 40)]:
            slide = check_add_slide(ctx, prs, layout, rng, deck.name, lines, impl, metas)
            if slide is not None and rng.random() < 0.3:
                check_notes(ctx, prs, slide, deck.name, lines, impl, metas)
    n_gen = 40 if ctx.quick else 600
    for gi in range(n_gen):
        prs = Presentation()
        layout = prs.slide_layouts[rng.randrange(len(prs.slide_layouts))]
        gen_layout_population(rng, layout, top=(gi % 8 == 1))
        if gi % 3 == 0:
            if rng.random() < 0.5 or gi % 6 == 3:
                for k_ in range(rng.choice([2, 2, 5, 9]) + (gi % 6 == 3)):
                    prs.slides.add_slide(prs.slide_layouts[6]).shapes.add_textbox(0, 0, 9, 9).text_frame.text = "slide %d" % k_
            b = io.BytesIO(); prs.save(b); b.seek(0)
            r = rng.random()
            if gi % 6 == 3 and len(prs.slides._sldIdLst) >= 2:
                # slide parts under other numbers (a gap, a permutation, a number above the count, out of sequence with the
                # last one numbered as the count): the new slide's part name must be free, the others keep their content
                from harness.props.c12 import renumber_slides
                rb = renumber_slides(b.getvalue(), rng, kind=["last-is-count", "gap", "permute", "high"][(gi // 6) % 4])
                if rb:
                    b = io.BytesIO(rb); ctx.count("renumbered-slide-part-decks")
            elif gi % 6 == 0 and len(prs.slides._sldIdLst) >= 5:
                b = io.BytesIO(renumbered(b.getvalue(), rng)); ctx.count("renumbered-relationship-decks")
            elif r < 0.6:
                b = io.BytesIO(rid_gap(b.getvalue(), rng)); ctx.count("relationship-id-gap-decks")
            prs = Presentation(b)
            layout = [l for l in prs.slide_layouts if l.name == layout.name][0]
            early_save = gi % 6 == 3 and gi % 12 == 3
            if early_save:
                # the deck is saved BEFORE its slides are looked at (their parts are renamed at the first look), slides are
                # added, it is saved again: the second file must hold the slides in the order and with the content in memory
                prs.save(io.BytesIO()); ctx.count("saved-before-first-look-at-slides")
        for rep in range(rng.randint(1, 3)):
            slide = check_add_slide(ctx, prs, layout, rng, f"generated#{gi}", lines, impl, metas)
            if slide is None:
                break
            if rng.random() < 0.4:
                slide.shapes.add_textbox(0, 0, 9, 9).text_frame.text = "edit"
            if rng.random() < 0.35:
                if rng.random() < 0.7 and not slide.has_notes_slide:
                    gen_notes_master(rng, prs)
                    ctx.count("generated-notes-master")
                check_notes(ctx, prs, slide, f"generated#{gi}", lines, impl, metas)
        if gi % 3 == 0:
            # what the saved file holds: the slides of the deck in presentation order, each with its own content
            def sig(p_):
                return [(s_.slide_layout.name, [(sh.shape_id, sh.name, sh.has_text_frame and sh.text_frame.text) for sh in s_.shapes]) for s_ in p_.slides]
            try:
                bb = io.BytesIO(); prs.save(bb)
                got, want = sig(Presentation(io.BytesIO(bb.getvalue()))), sig(prs)
            except Exception as e:  # noqa
                got, want = f"{type(e).__name__}: {str(e)[:100]}", None
            if got != want:
                ctx.fail("other-slide-touched", f"generated#{gi}: after the additions the saved deck re-opens with slides {str(got)[:300]}; in memory they are {str(want)[:300]}",
                         {"deck": f"generated#{gi}", "what": "saved deck after add_slide"})
    # every placeholder type once WITHOUT geometry of its own (all four readings come from the master's counterpart of the
    # mapped type - or are None where the master has none), and once with it: in every run, whatever the seed
    for own in (False, True):
        prs = Presentation(); layout = prs.slide_layouts[rng.choice([1, 5, 6])]
        spTree = layout.shapes._spTree
        for sp in list(ph_elms(spTree)):
            spTree.remove(sp)
        for i, ty in enumerate(t for t in ALL_TYPES if t != "sldImg"):
            geom = f'<a:xfrm><a:off x="{1000 * i}" y="{77 * i}"/><a:ext cx="{5000 + i}" cy="{300 + i}"/></a:xfrm>' if own else ""
            spTree.append(parse_xml(
                f'<p:sp xmlns:p="{P_NS}" xmlns:a="{A_NS}"><p:nvSpPr><p:cNvPr id="{i + 2}" name="T{i}"/><p:cNvSpPr><a:spLocks noGrp="1"/></p:cNvSpPr>'
                f'<p:nvPr><p:ph type="{ty}" idx="{i + 10}"/></p:nvPr></p:nvSpPr><p:spPr>{geom}</p:spPr><p:txBody><a:bodyPr/><a:lstStyle/><a:p/></p:txBody></p:sp>'))
        check_add_slide(ctx, prs, layout, rng, "generated-every-type" + ("" if not own else "-own-geometry"), lines, impl, metas)
        ctx.count("every-type-layouts")
    # the sldImg case (schema-permitted on a layout, not seen in practice)
    prs = Presentation(); layout = prs.slide_layouts[6]
    layout.shapes._spTree.append(parse_xml(
        f'<p:sp xmlns:p="{P_NS}" xmlns:a="{A_NS}"><p:nvSpPr><p:cNvPr id="9" name="Slide Image 1"/><p:cNvSpPr/><p:nvPr><p:ph type="sldImg" idx="5"/></p:nvPr></p:nvSpPr><p:spPr/></p:sp>'))
    check_add_slide(ctx, prs, layout, rng, "generated-sldImg", lines, impl, metas)
    res = ctx.driver.run(lines)
    for case, i, m in zip(metas, impl, res):
        ctx.traces += 1
        if i != m:
            ctx.disagree("ids-names", case, i, m)
    if lines:
        ctx.sample({"case": metas[0], "impl": impl[0][:200]})
        ctx.sample({"case": metas[-1], "impl": impl[-1][:200]})


def search(ctx, hints):
    return


def replay(ctx, data):
    for f in data.get("failing_inputs_on_real_code", []):
        print(f["what"][:500])
    for d in data.get("correspondence_disagreements", []):
        print("model/impl disagreement:", str(d)[:500])
    return 1
