"""C01 — open + save preserves every reachable part and relationship (random OPC graphs + corpus decks)."""
from __future__ import annotations

import io
import os
import shutil
import zipfile

from lxml import etree

from harness import common
from harness.common import dec, dec_list, enc, enc_list

ID = "C01"
LEAN_MODULES = ["PptxModel.Props.C01", "PptxModel.Props.C01G"]
RULE = (
    "seeded random OPC packages: 1..14 parts at directory depth 1..5, relationship graphs with cycles, shared targets, "
    "several relationships to one part, external links, targets written as proper relative references, './x', '../' "
    "detours and root-absolute names; content types declared by Default or Override with case flips, several parts "
    "sharing an extension but not a type (incl. the three printer-settings types on .bin), neutral content types so "
    "payloads stay opaque bytes (random, empty); unreferenced extra members; rIds with gaps and non-rId names; fed as "
    "file-like object, zip path and directory; plus every deck of the repository corpus (registered XML part classes). "
    "Observed: member order, [Content_Types].xml, every rels item and payload of the saved zip, and of a second "
    "open+save generation.  Non-trivial = distinct generated package."
)
ASSUMPTIONS = [
    "the XML codec of rels / content-types items (lxml) and zipfile / directory readers are runtime, sampled only",
    "relationship ids are unique per rels item (a well-formed package)",
]
TRUSTED = ["harness OPC oracle (independent re-implementation of OPC lookup semantics used for the L2 judgement)"]

CT_NS = "http://schemas.openxmlformats.org/package/2006/content-types"
REL_NS = "http://schemas.openxmlformats.org/package/2006/relationships"
SEGS = ["ppt", "slides", "slidesX", "media", "a", "ab", "b", "docProps", "x.y", "Deep"]
FILES = ["p1.xml", "p2.xml", "data.bin", "other.bin", "third.bin", "UPPER.BIN", "Mixed.Bin", "img.png", "IMG2.PNG", "pic.jpg", "blob.dat", "noext", "s1.xml", "s2.xml", "movie.mp4",
         "Picture%201.png", "a%41.bin", "photo.jpeg", "scan.tiff"]
# image types as other producers declare them: not always the canonical one for the extension (an alias, or a .png that
# holds a JPEG and says so in an Override)
IMAGE_TYPES = ["image/png", "image/jpeg", "image/jpg", "image/gif", "image/tiff", "image/x-png"]
EXTERNAL = ["http://example.com/x?a=1&b=2", "file:///C:/a b.txt", "../not/a/part", " http://example.com/landing ", "file:///C:/Shared  Docs/x.txt",
            "http://e.example/a%20b%26c?q=%3Cx%3E", "mailto:a@b.example?subject=100%25", "http://e.example/tab\there",
            "file:///\\\\server\\share\\x.xlsx", "C:\\docs\\a b.pptx", "..\\up\\one.docx"]   # Windows separators are part of the string
NEUTRAL = ["application/x-verif-a", "application/x-verif-b", "application/x-verif+xml"]
RT = "http://example.com/rel/%s"


def spec_tables():
    from pptx.opc.constants import CONTENT_TYPE as CT
    from pptx.opc.spec import default_content_types

    return list(default_content_types), CT.XML, CT.OPC_RELATIONSHIPS


def gen_package(rng, dct, dangling=False):
    """-> dict(members {name: bytes}, ct_defaults [(ext, ct)], ct_overrides [(name, ct)], rels {source: [(id,type,target,ext)]})"""
    n = rng.randint(1, 14)
    names = []
    while len(names) < n:
        depth = rng.randint(0, 4)
        nm = "/" + "/".join([rng.choice(SEGS) for _ in range(depth)] + [rng.choice(FILES)])
        if nm not in names and nm.lower() not in [x.lower() for x in names]:
            names.append(nm)
    types = {}
    by_ext_default = {}
    defaults, overrides = [], []
    for nm in names:
        ext = nm.rsplit(".", 1)[1] if "." in nm.rsplit("/", 1)[1] else ""
        cands = [ct for e, ct in dct if e == ext.lower() and e not in ("xml", "rels")] + NEUTRAL
        if ext.lower() in ("png", "jpg", "jpeg", "tiff") and rng.random() < 0.5:
            cands = IMAGE_TYPES
        ct = rng.choice(cands)
        types[nm] = ct
        el = ext.lower()
        if ext and el not in by_ext_default and rng.random() < 0.5:
            by_ext_default[el] = ct
            defaults.append((ext if rng.random() < 0.7 else ext.swapcase(), ct))
        elif ext and by_ext_default.get(el) == ct:
            pass
        else:
            overrides.append((nm if rng.random() < 0.8 else nm.swapcase(), ct))
    if rng.random() < 0.5:
        defaults.append(("rels", "application/vnd.openxmlformats-package.relationships+xml"))
    if rng.random() < 0.5 and "xml" not in by_ext_default:
        defaults.append(("xml", "application/xml"))
    members = {nm: (nm.encode() + bytes(rng.randrange(256) for _ in range(rng.randint(0, 20)))) if rng.random() < 0.9 else b"" for nm in names}
    rels = {}

    def ref(src, tgt):
        base = src.rsplit("/", 1)[0] or "/"
        import posixpath
        rel = posixpath.relpath(tgt, base)
        r = rng.random()
        if r < 0.55:
            return rel
        if r < 0.7:
            return tgt  # root-absolute
        if r < 0.8:
            return "./" + rel
        if r < 0.9 and base != "/":
            return "../" + base.rsplit("/", 1)[1] + "/" + rel  # detour up and down again
        return rel

    def add(src, tgt_or_url, external=False):
        lst = rels.setdefault(src, [])
        used = {r[0] for r in lst}
        k = len(lst) + 1
        rid = "rId%d" % k
        x = rng.random()
        if x < 0.15:
            rid = "rId%d" % rng.randint(1, 40)
        elif x < 0.2:
            rid = rng.choice(["foo", "R7", "rIdX", "rid2"])
        while rid in used:
            rid = rid + "9"
        lst.append((rid, RT % rng.choice("abc"), tgt_or_url, external))

    # a spanning set reachable from the root, then random extra edges
    reach = []
    pool = names[:]
    rng.shuffle(pool)
    k_root = rng.randint(1, min(3, len(pool)))
    unreachable = set(pool[-1:]) if len(pool) > 3 and rng.random() < 0.3 else set()
    for nm in pool:
        if nm in unreachable:
            continue
        if len(reach) < k_root:
            add("/", ref("/", nm))
        else:
            src = rng.choice(reach)
            add(src, ref(src, nm))
        reach.append(nm)
    for _ in range(rng.randint(0, 8)):
        src = rng.choice(["/"] + reach)
        r = rng.random()
        if r < 0.25:
            add(src, rng.choice(EXTERNAL), external=True)
        else:
            tgt = rng.choice(reach)
            add(src, ref(src, tgt))
    if rng.random() < 0.3:
        # the same relationship twice under two ids (PowerPoint does this for two runs linked to one URL, for a picture
        # used twice): both must survive
        cands_ = [(s_, r_) for s_, l_ in rels.items() for r_ in l_]
        if cands_:
            s_, r_ = rng.choice(cands_)
            used = {x[0] for x in rels[s_]}
            rid = "rId%d" % (len(rels[s_]) + 1)
            while rid in used:
                rid += "7"
            rels[s_].append((rid, r_[1], r_[2], r_[3]))
    if dangling:
        src = rng.choice(["/"] + reach)
        add(src, ref(src, "/ppt/NULL"))
    for u in unreachable:
        if rng.random() < 0.5 and reach:
            rels.setdefault(u, []).append(("rId1", RT % "a", ref(u, reach[0]), False))
    return {"members": members, "defaults": defaults, "overrides": overrides, "rels": rels, "types": types, "reach": reach}


def rels_xml(lst):
    root = etree.Element("{%s}Relationships" % REL_NS, nsmap={None: REL_NS})
    for rid, ty, tgt, ext in lst:
        e = etree.SubElement(root, "{%s}Relationship" % REL_NS, Id=rid, Type=ty, Target=tgt)
        if ext:
            e.set("TargetMode", "External")
    return etree.tostring(root, xml_declaration=True, encoding="UTF-8", standalone=True)


def ct_xml(defaults, overrides):
    root = etree.Element("{%s}Types" % CT_NS, nsmap={None: CT_NS})
    for e, c in defaults:
        etree.SubElement(root, "{%s}Default" % CT_NS, Extension=e, ContentType=c)
    for n, c in overrides:
        etree.SubElement(root, "{%s}Override" % CT_NS, PartName=n, ContentType=c)
    return etree.tostring(root, xml_declaration=True, encoding="UTF-8", standalone=True)


def rels_member(src):
    if src == "/":
        return "_rels/.rels"
    d, f = src[1:].rsplit("/", 1) if "/" in src[1:] else ("", src[1:])
    return (d + "/" if d else "") + "_rels/" + f + ".rels"


def to_zip_bytes(pkg, with_ct=True):
    b = io.BytesIO()
    with zipfile.ZipFile(b, "w", zipfile.ZIP_DEFLATED) as z:
        if with_ct:
            z.writestr("[Content_Types].xml", ct_xml(pkg["defaults"], pkg["overrides"]))
        for src, lst in pkg["rels"].items():
            z.writestr(rels_member(src), rels_xml(lst))
        for nm, data in pkg["members"].items():
            z.writestr(nm[1:], data)
    return b.getvalue()


def enc_pairs(l):
    return ";".join(f"{enc(a)}/{enc(b)}" for a, b in l) or "!"


def enc_rel_items(rels):
    out = []
    for src, lst in rels:
        out.append(enc(src) + "#" + (";".join(f"{enc(i)}/{enc(t)}/{enc(g)}/{int(x)}" for i, t, g, x in lst) or "!"))
    return "|".join(out) or "!"


def model_line(pkg, dct, xml_ct, rels_ct, has_ct=True):
    return "c01.rt %d %s %s %s %s %s %s %s" % (
        has_ct, enc_pairs(dct), enc(xml_ct), enc(rels_ct), enc_pairs(pkg["defaults"]), enc_pairs(pkg["overrides"]),
        enc_list(list(pkg["members"])), enc_rel_items(list(pkg["rels"].items())))


def listing_of_zip(data, src_members=None):
    """canonical listing of a saved zip in the model's output format"""
    z = zipfile.ZipFile(io.BytesIO(data))
    order = z.namelist()
    ct = etree.fromstring(z.read("[Content_Types].xml"))
    defaults = [(e.get("Extension"), e.get("ContentType")) for e in ct if e.tag.endswith("}Default")]
    overrides = [(e.get("PartName"), e.get("ContentType")) for e in ct if e.tag.endswith("}Override")]
    parts, rel_items = [], []
    for nm in order:
        if nm == "[Content_Types].xml":
            continue
        if nm.endswith(".rels") and "_rels/" in nm:
            r = etree.fromstring(z.read(nm))
            d, f = nm.rsplit("_rels/", 1)
            src = "/" if nm == "_rels/.rels" else "/" + d + f[: -len(".rels")]
            rel_items.append((src, [(e.get("Id"), e.get("Type"), e.get("Target"), e.get("TargetMode") == "External") for e in r]))
        else:
            name = "/" + nm
            if src_members is None:
                parts.append((name, name))
            else:
                parts.append((name, name if src_members.get(name) == z.read(nm) else "?"))
    return "%s %s %s %s %s" % (enc_list(order), enc_pairs(defaults), enc_pairs(overrides), enc_pairs(parts), enc_rel_items(rel_items)), z


def resolve(src, target):
    base = src.rsplit("/", 1)[0] or "/"
    path = target if target.startswith("/") else (base if base.endswith("/") else base + "/") + target
    out = []
    for seg in path.split("/"):
        if seg in ("", "."):
            continue
        if seg == "..":
            if out:
                out.pop()
            continue
        out.append(seg)
    return "/" + "/".join(out)


def oracle(ctx, pkg, saved, case_id, form):
    """the property's statement evaluated on (input package, saved zip) with an independent OPC reading"""
    z = zipfile.ZipFile(io.BytesIO(saved))
    names = z.namelist()
    fail = lambda key, what: ctx.fail(key, f"[{form}] {what}", {"package": case_id})  # noqa
    if len(set(names)) != len(names):
        fail("duplicate-member", f"duplicate zip members {names}")
    members = pkg["members"]
    # reachable parts
    reach, stack, seen = [], ["/"], set()
    while stack:
        s = stack.pop()
        if s in seen:
            continue
        seen.add(s)
        if s != "/":
            reach.append(s)
        for rid, ty, tgt, ext in pkg["rels"].get(s, []):
            if not ext:
                t = resolve(s, tgt)
                if t in members:
                    stack.append(t)
    got_parts = {"/" + n for n in names if n != "[Content_Types].xml" and not (n.endswith(".rels") and "_rels/" in n)}
    if got_parts != set(reach):
        fail("parts-differ", f"saved parts {sorted(got_parts)} but reachable parts are {sorted(reach)}")
    ct = etree.fromstring(z.read("[Content_Types].xml"))
    d = {}
    o = {}
    for e in ct:
        if e.tag.endswith("}Default"):
            d[e.get("Extension").lower()] = e.get("ContentType")
        else:
            o[e.get("PartName").lower()] = e.get("ContentType")
    for nm in reach:
        if "/" + nm[1:] not in got_parts:
            continue
        ext = nm.rsplit("/", 1)[1].rsplit(".", 1)[1].lower() if "." in nm.rsplit("/", 1)[1] else ""
        got = o.get(nm.lower(), d.get(ext))
        if got != pkg["types"][nm]:
            fail("content-type-changed", f"part {nm} had content type {pkg['types'][nm]!r}, saved package gives {got!r}")
        if z.read(nm[1:]) != members[nm]:
            fail("payload-changed", f"payload of {nm} differs")
    for src in ["/"] + reach:
        want = [(rid, ty, (tgt if ext else resolve(src, tgt)), ext) for rid, ty, tgt, ext in pkg["rels"].get(src, [])
                if ext or resolve(src, tgt) in members]
        m = rels_member(src)
        got = []
        if m in names:
            r = etree.fromstring(z.read(m))
            got = [(e.get("Id"), e.get("Type"), (e.get("Target") if e.get("TargetMode") == "External" else resolve(src, e.get("Target"))),
                    e.get("TargetMode") == "External") for e in r]
        if sorted(got) != sorted(want):
            fail("relationships-changed", f"relationships of {src}: saved {sorted(got)} but input has {sorted(want)}")


def run_impl(data_or_path):
    from pptx.opc.package import OpcPackage

    pkg = OpcPackage.open(data_or_path)
    out = io.BytesIO()
    pkg.save(out)
    return out.getvalue()


def correspond(ctx):
    rng = ctx.rng
    dct, xml_ct, rels_ct = spec_tables()
    lines, impl, metas = [], [], []
    tmp = common.scratch()
    n = 700 if ctx.quick else 8000
    for i in range(n):
        pkg = gen_package(rng, dct)
        data = to_zip_bytes(pkg)
        form = rng.choice(["stream", "stream", "path", "dir"])
        try:
            if form == "stream":
                saved = run_impl(io.BytesIO(data))
            elif form == "path":
                p = tmp / "pkg.zip"
                p.write_bytes(data)
                saved = run_impl(str(p))
            else:
                d = tmp / "pkgdir"
                shutil.rmtree(d, ignore_errors=True)
                with zipfile.ZipFile(io.BytesIO(data)) as z:
                    z.extractall(d)
                saved = run_impl(str(d))
        except Exception as e:  # noqa
            ctx.fail("open-save-raises", f"[{form}] open/save raised {type(e).__name__}: {e}", {"package": model_line(pkg, dct, xml_ct, rels_ct)})
            continue
        ctx.count("form-" + form); ctx.count("parts", len(pkg["members"]))
        line = model_line(pkg, dct, xml_ct, rels_ct)
        oracle(ctx, pkg, saved, line, form)
        l1, _ = listing_of_zip(saved, pkg["members"])
        # second generation: byte-identical members
        saved2 = run_impl(io.BytesIO(saved))
        l2, z2 = listing_of_zip(saved2)
        z1 = zipfile.ZipFile(io.BytesIO(saved))
        # "the same set of members with identical bytes": member ORDER may change (a non-rIdN relationship id sorts first
        # in the rewritten rels item, which changes the traversal order of the next generation)
        if sorted(z1.namelist()) != sorted(z2.namelist()) or any(z1.read(nm) != z2.read(nm) for nm in z1.namelist()):
            diff = [nm for nm in z1.namelist() if nm not in z2.namelist() or z1.read(nm) != z2.read(nm)]
            ctx.fail("second-save-differs", f"[{form}] opening and saving the output again changes members {diff[:4]}", {"package": line})
        lines.append(line); impl.append(f"OK {l1} {l2}"); metas.append(form)
        ctx.case(key=line)
    ctx.sample({"line": lines[0][:400], "impl": impl[0][:400]})
    model = ctx.driver.run(lines)
    for line, i, m in zip(lines, impl, model):
        ctx.traces += 1
        if i != m:
            ctx.disagree("listing", {"package": line[:3000]}, show(i), show(m))
    # corpus decks: registered part classes (XML parts are re-serialised); property oracle only
    decks = common.corpus_decks()
    if ctx.quick:
        decks = decks[:: max(1, len(decks) // 30)]
    for deck in decks:
        run_corpus(ctx, deck)


def show(listing):
    try:
        toks = listing.split(" ")
        out = [toks[0]]
        for t in toks[1:]:
            if t in ("!", "RELOAD-ERR"):
                out.append(t)
            elif "#" in t:
                out.append("|".join(dec(it.split("#")[0]) + ":" + ",".join("/".join(dec(x) if n < 3 else x for n, x in enumerate(r.split("/"))) for r in it.split("#")[1].split(";") if r != "!") for it in t.split("|")))
            elif "/" in t:
                out.append(";".join("=".join(dec(x) for x in pr.split("/")) for pr in t.split(";")))
            else:
                out.append(",".join(dec_list(t)))
        return " ".join(out)
    except Exception:
        return listing


def run_corpus(ctx, deck):
    """open/save a real deck twice: same part set, content types, relationships, non-XML payloads; XML parts equivalent (C14N)"""
    data = deck.read_bytes()
    try:
        saved = run_impl(io.BytesIO(data))
        saved2 = run_impl(io.BytesIO(saved))
    except Exception as e:  # noqa
        ctx.fail("corpus-open-save-raises:" + deck.name, f"{deck.name}: {type(e).__name__}: {e}", {"deck": deck.name})
        return
    ctx.case(key=("corpus", deck.name)); ctx.count("corpus-decks")
    zin, z1, z2 = (zipfile.ZipFile(io.BytesIO(b)) for b in (data, saved, saved2))
    if sorted(z1.namelist()) != sorted(z2.namelist()) or any(z1.read(n) != z2.read(n) for n in z1.namelist()):
        diff = [n for n in z1.namelist() if n not in z2.namelist() or z1.read(n) != z2.read(n)]
        ctx.fail("second-save-differs", f"{deck.name}: second open+save changes {diff[:4]}", {"deck": deck.name})
    in_names = {n for n in zin.namelist() if not n.endswith("/")}
    for n in z1.namelist():
        if n not in in_names:
            ctx.fail("corpus-new-member", f"{deck.name}: saved package has member {n} absent from the input", {"deck": deck.name})
            continue
        a, b = zin.read(n), z1.read(n)
        if a == b or n == "[Content_Types].xml" or n.endswith(".rels"):
            continue
        if n.endswith(".xml") or n.endswith(".vml"):
            try:
                ca = etree.tostring(etree.fromstring(a), method="c14n")
                cb = etree.tostring(etree.fromstring(b), method="c14n")
                pa = etree.XMLParser(remove_blank_text=True)
                if ca != cb and etree.tostring(etree.fromstring(a, pa), method="c14n") != etree.tostring(etree.fromstring(b, pa), method="c14n"):
                    ctx.fail("corpus-xml-changed", f"{deck.name}: XML part {n} is not equivalent after open+save", {"deck": deck.name, "member": n})
            except etree.XMLSyntaxError:
                pass
        else:
            ctx.fail("payload-changed", f"{deck.name}: non-XML member {n} changed", {"deck": deck.name, "member": n})


def search(ctx, hints):
    return


def replay(ctx, data):
    for f in data.get("failing_inputs_on_real_code", []):
        print(f["what"][:500])
    for d in data.get("correspondence_disagreements", []):
        print("model/impl disagreement:", str(d)[:800])
    return 1
