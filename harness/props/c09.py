"""C09 — a property reads back as set, survives save / re-open; None restores inheritance."""
from __future__ import annotations

import io
import math
import random
from fractions import Fraction

from harness import common, oplab

ID = "C09"
LEAN_MODULES = ["PptxModel.Props.C09", "PptxModel.Props.C09C", "PptxModel.Props.C09F", "PptxModel.Props.C09A", "PptxModel.Props.C09S", "PptxModel.Props.C09T", "PptxModel.Props.C09L"]
RULE = (
    "the property table of harness/oplab.py (~110 read/write properties of Presentation, slides, shapes, pictures, "
    "connectors, text frames, paragraphs, runs, fonts, lines, colours, gradient / pattern fills, tables, cells, rows, "
    "columns, charts, legends, axes, tick labels, plots, data labels, markers, series) x every object of that kind in a "
    "generated deck holding every shape kind and 7 chart types and in the corpus decks x {in-domain values incl. domain "
    "bounds, None where documented, out-of-domain values} in seeded order: the getter right after the setter (within the "
    "storage quantum), every sibling getter of the same object before / after (independence, with the documented "
    "couplings excepted), TypeError / ValueError and an unchanged reading for out-of-domain values, and all recorded "
    "readings again after save + re-open.  Stored integers of the non-identity conversions (font size, rotation, crop, "
    "adjustments, brightness, gradient angle, stop position, line spacing) and assignment histories on attribute stores "
    "(a:rPr, a:bodyPr, a:tcPr) are compared exactly with the Lean model.  ColorFormat, FillFormat and shape.adjustments are compared "
    "(and paragraph spacing: line_spacing / space_before / space_after, Model/Spacing; TextFrame.auto_size, Model/Autofit; LineFormat.width / .dash_style, Model/LineFmt) "
    "with their state-machine models (Model/Color, Model/Fill, Model/Adjust) after every call of seeded histories from start states "
    "the library never writes, each call through a proxy held from the start or through a new one (fonts, fills, lines, gradient "
    "stops, pattern colours, table cells, chart series, slide backgrounds; the owner's .color shortcut; several proxies of one "
    "shape).  A held-proxy pass assigns every property of the table through a new proxy and reads it through one held since "
    "discovery, and the reverse.  Links that share a relationship and the points of one series formatted in any index order are "
    "checked for independence across objects.  Non-trivial = distinct (kind, property, value class, outcome)."
)
ASSUMPTIONS = [
    "float inputs to the exact comparison are dyadic rationals (exactly representable); results within one ulp of a "
    "half-quantum threshold are float artefacts, recorded and not judged",
    "documented couplings excepted from independence: number_format -> number_format_is_linked; crosses <-> crosses_at; "
    "rgb / theme_color / brightness of one colour; text setters vs the runs they replace",
    "domain of each property as written in harness/oplab.py from the docstrings and the schema types; for properties whose "
    "stored value is a sum of others (table height / width) values are kept below 2^40 EMU so that the derived value stays "
    "inside its type; connector end points range over the whole coordinate type (an unrepresentable span must be refused "
    "and leave the connector alone)",
]
TRUSTED = ["harness/oplab.py (property table and object discovery)"]

COUPLED = {
    ("datalabels", "number_format"): {"number_format_is_linked"},
    ("ticklabels", "number_format"): {"number_format_is_linked"},
    ("valaxis", "crosses"): {"crosses_at"},
    ("valaxis", "crosses_at"): {"crosses"},
    ("color", "rgb"): {"theme_color", "brightness"},
    ("color", "theme_color"): {"rgb", "brightness"},
    ("color", "brightness"): set(),
    ("axis", "has_title"): set(),
    ("datalabel", "has_text_frame"): {"position"},
    ("datalabel", "position"): {"has_text_frame"},
}
# properties whose domain depends on the object's state: an in-domain value may be refused there (the reading must not move)
CONDITIONAL = {
    ("connector", "begin_x"), ("connector", "begin_y"), ("connector", "end_x"), ("connector", "end_y"),   # the span to the other end point must be representable
    ("gradfill", "gradient_angle"),                                                                       # only a linear gradient has one
    ("row", "height"), ("column", "width"),                                                               # the frame must be able to take the new total
    ("ticklabels", "offset"),                                                                             # a value axis has no c:lblOffset
}
NONE_READS = {("ticklabels", "number_format_is_linked"): True, ("datalabels", "number_format_is_linked"): True, ("legend", "include_in_layout"): True, ("plot", "vary_by_categories"): True, ("bubbleplot", "bubble_scale"): 100,
              ("cell", "margin_left"): 91440, ("cell", "margin_right"): 91440, ("cell", "margin_top"): 45720, ("cell", "margin_bottom"): 45720}


def none_reading(p):
    if (p.kind, p.name) == ("font", "language_id"):
        from pptx.enum.lang import MSO_LANGUAGE_ID
        return MSO_LANGUAGE_ID.NONE   # documented: "returns MSO_LANGUAGE_ID.NONE when no language is set"
    return NONE_READS.get((p.kind, p.name))


def reading(obj, name):
    try:
        if "[" in name:
            return ("v", eval("o." + name, {"o": obj}))  # noqa: S307 - e.g. adjustments[2]
        return ("v", getattr(obj, name))
    except Exception as e:  # noqa
        return ("raises", type(e).__name__)


def close(got, want, quantum):
    import enum
    if isinstance(got, enum.Enum) != isinstance(want, enum.Enum) or (isinstance(got, bool) != isinstance(want, bool)):
        return False       # WORDS (value 1) == True in Python; the property must return what was assigned
    if got == want:
        return True
    if got is None or want is None or isinstance(got, bool) or isinstance(want, bool):
        return False
    try:
        return abs(got - want) <= quantum
    except TypeError:
        return False


def _fill_obs(f):
    t = f.type
    return (t, f.fore_color.rgb if t == 1 and f.fore_color.type == 1 else None)


# read-only observables of an object's PARTS (its fill, its line, its text, its neighbours in a collection): assigning one
# of the object's own properties must leave them as they were - read through a newly obtained proxy before and after
OBSERVE = {
    "cell": [("fill", lambda o: _fill_obs(o.fill)), ("text", lambda o: o.text), ("span", lambda o: (o.is_merge_origin, o.is_spanned))],
    "shape": [("fill", lambda o: _fill_obs(o.fill) if hasattr(o, "fill") else None),
              ("line", lambda o: (o.line.width, o.line.dash_style, o.line.fill.type) if hasattr(o, "line") else None),
              ("text", lambda o: o.text_frame.text if getattr(o, "has_text_frame", False) else None),
              ("shape_type", lambda o: o.shape_type), ("shape_id", lambda o: o.shape_id)],
    "connector": [("line", lambda o: (o.line.width, o.line.dash_style, o.line.fill.type)), ("name", lambda o: o.name), ("rotation", lambda o: o.rotation)],
    "picture": [("line", lambda o: (o.line.width, o.line.fill.type)), ("geometry", lambda o: (o.left, o.top, o.width, o.height)),
                ("image", lambda o: o.image.sha1)],
    "text_frame": [("text", lambda o: o.text), ("paragraph formats", lambda o: [(q.alignment, q.level) for q in o.paragraphs]),
                   ("run fonts", lambda o: [(r.font.size, r.font.bold, r.font.name) for q in o.paragraphs for r in q.runs])],
    "paragraph": [("text", lambda o: o.text), ("run fonts", lambda o: [(r.font.size, r.font.bold, r.font.name) for r in o.runs]),
                  ("font", lambda o: (o.font.size, o.font.bold))],
    "font": [("color", lambda o: (o.color.type, o.color.rgb if o.color.type == 1 else None)), ("fill", lambda o: o.fill.type)],
    "line": [("fill", lambda o: o.fill.type)],
    "table": [("texts", lambda o: [[c.text for c in r.cells] for r in o.rows]), ("sizes", lambda o: ([r.height for r in o.rows], [c.width for c in o.columns])),
              ("fills", lambda o: [[_fill_obs(c.fill) for c in r.cells] for r in o.rows])],
    "row": [("cells", lambda o: [(c.text, _fill_obs(c.fill), c.margin_left, c.vertical_anchor) for c in o.cells])],
    "chart": [("series", lambda o: [(s_.name, list(s_.values)) for pl in o.plots for s_ in pl.series]), ("type", lambda o: o.chart_type),
              ("font", lambda o: (o.font.size, o.font.bold))],
    "axis": [("line", lambda o: (o.format.line.width, o.format.line.fill.type)), ("tick labels", lambda o: (o.tick_labels.font.size, o.tick_labels.number_format, o.tick_labels.offset if hasattr(o.tick_labels, "offset") else None))],
    "valaxis": [("line", lambda o: (o.format.line.width, o.format.line.fill.type)), ("gridlines", lambda o: (o.has_major_gridlines, o.has_minor_gridlines)),
                ("scale", lambda o: (o.maximum_scale, o.minimum_scale))],
    "ticklabels": [("font", lambda o: (o.font.size, o.font.bold, o.font.name))],
    "legend": [("font", lambda o: (o.font.size, o.font.bold))],
    "plot": [("series", lambda o: [(s_.name, list(s_.values)) for s_ in o.series]), ("categories", lambda o: list(o.categories))],
    "barplot": [("series", lambda o: [(s_.name, list(s_.values), s_.format.fill.type) for s_ in o.series])],
    "datalabels": [("font", lambda o: (o.font.size, o.font.bold))],
    "marker": [("format", lambda o: (o.format.fill.type, o.format.line.width))],
    "barseries": [("format", lambda o: (o.format.fill.type, o.format.line.width)), ("data", lambda o: (o.name, list(o.values)))],
    "lineseries": [("format", lambda o: (o.format.line.width, o.format.line.fill.type)), ("marker", lambda o: (o.marker.size, o.marker.style)),
                   ("data", lambda o: (o.name, list(o.values)))],
    "slide": [("shapes", lambda o: [(x.shape_id, x.name) for x in o.shapes]), ("layout", lambda o: o.slide_layout.name)],
    "prs": [("slides", lambda o: [x.slide_id for x in o.slides])],
}
# legitimate effects of a property on the parts observed above
OBSERVE_COUPLED = {("text_frame", "text"): {"text", "paragraph formats", "run fonts"}, ("paragraph", "text"): {"text", "run fonts"},
                   ("cell", "text"): {"text"}, ("shape", "name"): set(), ("slide", "name"): set(),
                   ("valaxis", "crosses"): set(), ("chart", "has_legend"): set()}


def observe(prs, path, kind, skip):
    try:
        o = eval(path, {"prs": prs})  # noqa: S307 - paths are produced by harness/oplab.py
    except Exception:  # noqa
        return None
    if o is None:
        return None
    out = {}
    for lb, fn in OBSERVE.get(kind, ()):
        if lb in skip:
            continue
        try:
            out[lb] = ("v", fn(o))
        except Exception as e:  # noqa
            out[lb] = ("raises", type(e).__name__)
    return out


def refetch(ctx, prs, label, path, name, rd, case):
    """the value lives in the document, not in the proxy object: a newly obtained proxy reads the same"""
    try:
        fresh = eval(path, {"prs": prs})  # noqa: S307 - paths are produced by harness/oplab.py
    except Exception:  # noqa
        return
    if fresh is None:
        return
    again = reading(fresh, name)
    if again != rd:
        ctx.fail(f"refetch:{name.split('[')[0]}", f"{label} {path}.{name}: reads {rd[1]!r} on the object it was assigned through, {again[1]!r} on a newly obtained one", case)


def build_deck():
    """a deck holding every kind of object the property table addresses"""
    from pptx import Presentation
    from pptx.chart.data import CategoryChartData, XyChartData, BubbleChartData
    from pptx.enum.chart import XL_CHART_TYPE
    from pptx.enum.shapes import MSO_CONNECTOR, MSO_SHAPE
    from pptx.util import Inches

    m = oplab.media()
    prs = Presentation()
    s0 = prs.slides.add_slide(prs.slide_layouts[1])
    s0.shapes.title.text = "Title"
    s0.placeholders[1].text = "body\nsecond"
    s1 = prs.slides.add_slide(prs.slide_layouts[6])
    sh = s1.shapes
    a = sh.add_shape(MSO_SHAPE.ROUNDED_RECTANGLE, Inches(1), Inches(1), Inches(2), Inches(1))
    a.text_frame.text = "auto"
    a.text_frame.paragraphs[0].add_run().text = "run2"
    a.fill.solid(); a.fill.fore_color.rgb = oplab.d_rgb(random.Random(1))
    g = sh.add_shape(MSO_SHAPE.CHEVRON, Inches(3), Inches(1), Inches(1), Inches(1)); g.fill.gradient()
    p = sh.add_shape(MSO_SHAPE.OVAL, Inches(4), Inches(1), Inches(1), Inches(1)); p.fill.patterned()
    tb = sh.add_textbox(Inches(1), Inches(3), Inches(2), Inches(1)); tb.text_frame.text = "box"
    sh.add_picture(m["images"][0], Inches(5), Inches(1))
    sh.add_connector(MSO_CONNECTOR.ELBOW, Inches(1), Inches(5), Inches(3), Inches(6))
    # the other three orientations (flipH / flipV set in the XML)
    sh.add_connector(MSO_CONNECTOR.STRAIGHT, Inches(3), Inches(6), Inches(1), Inches(5))
    sh.add_connector(MSO_CONNECTOR.STRAIGHT, Inches(1), Inches(6), Inches(3), Inches(5))
    sh.add_connector(MSO_CONNECTOR.CURVE, Inches(3), Inches(5), Inches(1), Inches(6))
    grp = sh.add_group_shape(); grp.shapes.add_shape(MSO_SHAPE.RECTANGLE, Inches(6), Inches(3), Inches(1), Inches(1))
    tbl = sh.add_table(3, 3, Inches(1), Inches(4), Inches(4), Inches(1.5)).table
    # cells whose a:tcPr holds a fill and no attribute; a fill next to a margin
    c = tbl.cell(0, 1); c.fill.solid(); c.fill.fore_color.rgb = oplab.d_rgb(random.Random(2))
    c = tbl.cell(2, 2); c.fill.solid(); c.fill.fore_color.rgb = oplab.d_rgb(random.Random(3)); c.margin_top = Inches(0.1)
    s2 = prs.slides.add_slide(prs.slide_layouts[6])
    cd = CategoryChartData(); cd.categories = ["a", "b", "c"]; cd.add_series("S1", (1, 2, 3)); cd.add_series("S2", (3, 2, 1))
    for i, ct in enumerate([XL_CHART_TYPE.COLUMN_CLUSTERED, XL_CHART_TYPE.LINE_MARKERS, XL_CHART_TYPE.PIE, XL_CHART_TYPE.AREA, XL_CHART_TYPE.RADAR]):
        ch = s2.shapes.add_chart(ct, Inches(i), Inches(0), Inches(3), Inches(2), cd).chart
        ch.has_legend = True
        ch.plots[0].has_data_labels = True
        if i < 2:
            ch.has_title = True
            ch.value_axis.has_title = True
    xy = XyChartData(); se = xy.add_series("X"); se.add_data_point(1, 2); se.add_data_point(2, 3)
    s2.shapes.add_chart(XL_CHART_TYPE.XY_SCATTER, 0, Inches(3), Inches(3), Inches(2), xy)
    bd = BubbleChartData(); se = bd.add_series("B"); se.add_data_point(1, 2, 3); se.add_data_point(2, 3, 4)
    s2.shapes.add_chart(XL_CHART_TYPE.BUBBLE, Inches(3), Inches(3), Inches(3), Inches(2), bd)
    s1.notes_slide.notes_text_frame.text = "notes"
    return prs


def vclass(p, v, cls):
    return cls


def exercise(ctx, prs, label, rng, budget, none_first=False, zero_first=False, world=None, sweep=False):
    """assign properties on the objects of one deck; -> {(path, name): reading} for the re-open comparison"""
    table = oplab.prop_table()
    by_kind = {}
    for p in table:
        by_kind.setdefault(p.kind, []).append(p)
    world = world or oplab.discover(prs)
    recorded = {}
    todo = []
    for kind, plist in by_kind.items():
        for obj, path in world.objs.get(kind, []):
            for p in plist:
                todo.append((p, obj, path))
    fixed = {}
    if sweep:
        # systematic: every distinct in-domain value the property's generator knows (its boundary values among them), on
        # the first and the last object of each kind, in generator order (not sampled)
        todo = []
        for kind, plist in by_kind.items():
            objs = world.objs.get(kind, [])
            for obj, path in ([objs[0], objs[-1]] if len(objs) > 1 else objs):
                for p in plist:
                    import enum as _enum
                    seen_v, is_enum = [], False
                    for i in range(600):
                        try:
                            v = p.gen(random.Random(i))
                        except Exception:  # noqa
                            continue
                        is_enum = is_enum or isinstance(v, _enum.Enum)
                        if repr(v) not in seen_v:
                            seen_v.append(repr(v))
                            fixed[len(todo)] = v
                            todo.append((p, obj, path))
                        # EVERY member the generator knows for an enumeration (fixed seeds: the same set in every run), ten
                        # values of anything else
                        if (len(seen_v) >= 10 and not is_enum) or (i >= 48 and not is_enum) or len(seen_v) >= 80:
                            break
    # the same property of the same object is assigned several times in a history (Length then float, None then a value,
    # one enum member then another): a setter that is right on a fresh element may be wrong on the one it left behind
    if sweep:
        pass
    elif none_first:
        # systematic: None assigned to every property that documents it, on every object, while the object is still as it
        # was built (nothing explicit to remove: the assignment must be a no-op on everything else the element holds)
        todo = [t for t in todo if t[0].none_ok]
    elif zero_first:
        # systematic: 0 assigned to every numeric property of every object while the object is still as the file gave it
        # (on a deck without optional empty containers: the setter's "nothing there yet" path with the one value that is
        # falsy); a property that refuses 0 must leave its reading alone
        def numeric(p):
            vs = [p.gen(random.Random(i)) for i in range(4)]
            return all(isinstance(v, (int, float)) and not isinstance(v, bool) and not hasattr(v, "xml_value") and not hasattr(v, "name") for v in vs)
        todo = [t for t in todo if numeric(t[0])]
    else:
        todo = todo + rng.sample(todo, len(todo) // 2)
    if not sweep:
        rng.shuffle(todo)
    # text setters replace paragraphs and runs (objects obtained earlier then describe detached elements): they come last
    todo = todo[:budget]
    order = list(range(len(todo)))
    order = [i for i in order if todo[i][0].name != "text"] + [i for i in order if todo[i][0].name == "text"]
    for ti in order:
        p, obj, path = todo[ti]
        # always work through a live proxy: an earlier structural assignment (has_legend = False, has_title = False, a text
        # assignment) may have replaced the element the object found at discovery time stands for
        try:
            live = eval(path, {"prs": prs})  # noqa: S307 - paths are produced by harness/oplab.py
        except Exception:  # noqa
            ctx.count("object-gone")
            continue
        if live is None:
            ctx.count("object-gone")
            continue
        obj = live
        sibs = [q.name for q in by_kind[p.kind] if q.name != p.name and q.name not in COUPLED.get((p.kind, p.name), set())
                and not (p.name in ("text",) or q.name in ("text",))]
        r = 0.0 if none_first else rng.random()
        if sweep:
            v, cls = fixed[ti], "in"
        elif zero_first:
            v, cls = type(p.gen(random.Random(0)))(0), "zero"
        elif r < 0.15 and p.none_ok:
            v, cls = None, "none"
        elif r < 0.3 and p.bad is not None:
            v, cls = p.bad(rng), "bad"
        else:
            v, cls = p.gen(rng), "in"
        obs_skip = OBSERVE_COUPLED.get((p.kind, p.name), set())
        # (looking at an object's parts creates containers such as a:tcPr: not before a 0-first assignment)
        obs_before = None if zero_first else observe(prs, path, p.kind, obs_skip)
        before_self = reading(obj, p.name)
        before = {n: reading(obj, n) for n in sibs}
        case = {"deck": label, "object": path, "property": p.name, "value": repr(v)[:80], "class": cls}
        try:
            setattr(obj, p.name, v)
            outcome = "ok"
        except (TypeError, ValueError) as e:
            outcome = "rejected:" + type(e).__name__
            case["exception"] = str(e)[:200]
        except Exception as e:  # noqa
            outcome = "raised:" + type(e).__name__
            case["exception"] = str(e)[:200]
        ctx.case(key=(p.kind, p.name, cls, outcome))
        ctx.count(f"assign-{cls}-{outcome.split(':')[0]}")
        after_self = reading(obj, p.name)
        if outcome.startswith("raised") and "(thinned" in label:
            # a thinned deck is schema-valid but may be inconsistent (an axis whose crossing axis was removed): an
            # undocumented exception there says nothing about the property
            ctx.count("raised-on-inconsistent-thinned-input")
            continue
        if outcome.startswith("raised"):
            ctx.fail(f"{p.kind}.{p.name}:{outcome}", f"{label} {path}.{p.name} = {v!r}: raised {outcome.split(':')[1]} (neither accepted nor rejected with TypeError / ValueError)", case)
            continue
        if cls == "bad":
            if outcome == "ok":
                # the value is outside the documented domain; accepted all the same: judge only that it reads back
                ctx.count("out-of-domain-accepted:" + p.kind + "." + p.name)
            elif after_self != before_self:
                ctx.fail(f"{p.kind}.{p.name}:rejected-but-changed", f"{label} {path}.{p.name} = {v!r} was rejected ({outcome}) but the reading changed from {before_self[1]!r} to {after_self[1]!r}", case)
        if outcome.startswith("rejected"):
            if cls in ("in", "none") and "(thinned" in label:
                # an in-domain value refused on a thinned deck: the object is incomplete (a connector without extents), the
                # refusal comes from arithmetic on a missing value - says nothing about the property
                ctx.count("in-domain-value-refused-on-thinned-input")
            elif cls in ("in", "none") and before_self[0] == "v":
                # a conditional domain (e.g. gradient_angle of a non-linear gradient, offset of a value axis): the reading must not move
                ctx.count(f"conditional-domain:{p.kind}.{p.name}")
                if (p.kind, p.name) not in CONDITIONAL:
                    ctx.fail(f"{p.kind}.{p.name}:in-domain-value-refused", f"{label} {path}.{p.name} = {v!r} (a value of the documented domain) was refused: {outcome} {case.get('exception', '')}", case)
                if after_self != before_self:
                    ctx.fail(f"{p.kind}.{p.name}:rejected-but-changed", f"{label} {path}.{p.name} = {v!r} was rejected ({outcome}) but the reading changed from {before_self[1]!r} to {after_self[1]!r}", case)
        else:
            if after_self[0] != "v":
                ctx.fail(f"{p.kind}.{p.name}:unreadable-after-set", f"{label} {path}.{p.name} = {v!r}: the getter then raises {after_self[1]}", case)
            else:
                got = after_self[1]
                if v is None:
                    want = none_reading(p)
                    ok = got == want or (p.kind in ("shape",) and got is not None)  # placeholders report the inherited value
                else:
                    want = p.norm(v) if p.norm else v
                    q = p.quantum
                    if p.name == "line_spacing" and not hasattr(v, "pt"):
                        q = 1e-5 + 1e-9
                    ok = close(got, want, q)
                if not ok and cls != "bad":
                    vn = ":" + v.name if hasattr(v, "name") and hasattr(v, "value") else ""
                    ctx.fail(f"{p.kind}.{p.name}:read-back{vn}", f"{label} {path}.{p.name} = {v!r}: reads back {got!r}" + ("" if v is None else f" (quantum {p.quantum})"), case)
                recorded[(path, p.name)] = after_self
                if p.name != "text":
                    refetch(ctx, prs, label, path, p.name, after_self, case)
        obs_after = observe(prs, path, p.kind, obs_skip) if obs_before is not None else None
        if obs_before and obs_after:
            ctx.count("parts-observed")
            for lb in obs_before:
                if obs_after.get(lb) != obs_before[lb]:
                    ctx.fail(f"independence:{p.kind}.{p.name}->({lb})", f"{label} {path}: assigning {p.name} = {v!r} ({outcome}) changed the object's {lb} "
                             f"from {str(obs_before[lb][1])[:160]!r} to {str(obs_after.get(lb, ('', None))[1])[:160]!r} (read through newly obtained objects)", case)
        after = {n: reading(obj, n) for n in sibs}
        PAIR = {"left": "top", "top": "left", "width": "height", "height": "width"}
        for n in sibs:
            if p.kind == "shape" and PAIR.get(p.name) == n and before[n] == ("v", None) and after[n] == ("v", 0):
                # a:off / a:ext hold both values of their pair: a shape that had NO offset (extents) gets one, the
                # other coordinate necessarily becomes explicit; there is nothing inherited it could have kept
                ctx.count("pair-created-from-nothing")
                continue
            if p.kind == "prs" and before[n] == ("v", None) and after[n][0] == "v" and after[n][1] in (9144000, 6858000):
                # p:sldSz holds width and height together: on a presentation part that had none, the dimension that was
                # not assigned gets the size an absent element means
                ctx.count("pair-created-from-nothing")
                continue
            if after[n] != before[n]:
                # a placeholder that inherits its position: see the recorded finding
                key = f"{p.kind}.{p.name}->{n}"
                if p.kind == "shape" and getattr(obj, "is_placeholder", False) and p.name in ("left", "top", "width", "height") and n in ("left", "top", "width", "height"):
                    key = "placeholder-geometry-coupled"
                ctx.fail("independence:" + key, f"{label} {path}: assigning {p.name} = {v!r} ({outcome}) changed {n} from {before[n][1]!r} to {after[n][1]!r}", case)
                if (path, n) in recorded:
                    recorded[(path, n)] = after[n]
                break
    # adjustments: an indexed read/write collection (negative values and values above 1 are documented as valid)
    for obj, path in world.objs.get("autoshape", []):
        try:
            obj = eval(path, {"prs": prs})  # noqa: S307 - the world may have been discovered on another instance of the file
            n = len(obj.adjustments)
        except Exception:  # noqa
            continue
        for i in range(n):
            if rng.random() < 0.5:
                continue
            v = rng.choice([0.0, 1.0, 0.5, -0.25, -0.70833, 2.5, round(rng.uniform(-1, 2), 5)])
            others = [obj.adjustments[j] for j in range(n)]
            obj.adjustments[i] = v
            got = obj.adjustments[i]
            ctx.case(key=("adjustments", v < 0, v > 1))
            ctx.count("assign-adjustment")
            case = {"deck": label, "object": path, "property": f"adjustments[{i}]", "value": v}
            if abs(got - v) > 1e-5:
                ctx.fail("autoshape.adjustments:read-back", f"{label} {path}.adjustments[{i}] = {v}: reads back {got}", case)
            for j in range(n):
                if j != i and obj.adjustments[j] != others[j]:
                    ctx.fail("independence:adjustments", f"{label} {path}: assigning adjustments[{i}] changed adjustments[{j}] from {others[j]} to {obj.adjustments[j]}", case)
            recorded[(path, f"adjustments[{i}]")] = ("v", got)
            refetch(ctx, prs, label, path, f"adjustments[{i}]", ("v", got), case)
    return recorded


def reopen_check(ctx, prs, label, recorded):
    from pptx import Presentation

    # what every recorded property reads NOW (later assignments to coupled properties and to other objects - a column
    # width changes the table's width - have moved some on): this is what must survive the round trip
    final = {}
    for (path, name) in recorded:
        try:
            obj = eval(path, {"prs": prs})  # noqa: S307
        except Exception:  # noqa
            continue
        if obj is None:
            continue
        final[(path, name)] = reading(obj, name)
    recorded = final
    buf = io.BytesIO()
    try:
        prs.save(buf)
    except Exception as e:  # noqa
        ctx.fail("save-raises", f"{label}: save after property assignments raised {type(e).__name__}: {str(e)[:150]}", {"deck": label})
        return
    buf.seek(0)
    prs2 = Presentation(buf)
    # text setters restructure runs: the readings of objects below a text frame whose text was assigned are skipped
    n = 0
    for (path, name), rd in recorded.items():
        try:
            obj = eval(path, {"prs": prs2})  # noqa: S307 - paths are produced by harness/oplab.py
        except Exception:  # noqa
            ctx.count("reopen-path-gone")
            continue
        if obj is None:
            continue
        again = reading(obj, name)
        n += 1
        ctx.case(key=("reopen", path.split("[")[0], name))
        if again != rd:
            ctx.fail(f"reopen:{name}", f"{label} {path}.{name}: read {rd[1]!r} before save, {again[1]!r} after save + re-open", {"deck": label, "object": path, "property": name})
    ctx.count("reopen-readings", n)


# ------------------------------------------------------------------------------------------------------------ model tie
def dyadic(rng, lo, hi, bits=12):
    d = 2 ** rng.choice([0, 1, 2, 4, 8, bits])
    n = rng.randint(int(lo * d), int(hi * d))
    return Fraction(n, d)


def conversions(ctx):
    """stored integers of the non-identity conversions, compared exactly with the Lean model"""
    from pptx import Presentation
    from pptx.enum.shapes import MSO_SHAPE
    from pptx.util import Emu

    rng = ctx.rng
    prs = Presentation()
    slide = prs.slides.add_slide(prs.slide_layouts[6])
    sp = slide.shapes.add_shape(MSO_SHAPE.ROUNDED_RECTANGLE, 0, 0, 914400, 914400)
    pic = slide.shapes.add_picture(oplab.media()["images"][0], 0, 0)
    sp.text_frame.text = "x"
    font = sp.text_frame.paragraphs[0].runs[0].font
    para = sp.text_frame.paragraphs[0]
    sp.fill.solid()
    from pptx.enum.dml import MSO_THEME_COLOR
    sp.fill.fore_color.theme_color = MSO_THEME_COLOR.ACCENT_1
    g = slide.shapes.add_shape(MSO_SHAPE.RECTANGLE, 0, 0, 914400, 914400)
    g.fill.gradient()
    lines, impl, metas = [], [], []
    n = 60 if ctx.quick else 600

    def add(line, got, meta):
        lines.append(line); impl.append(got); metas.append(meta)
        ctx.case(key=line)

    for _ in range(n):
        emu = rng.choice([12700, 12701, 12826, 12827, 254000, 50800000, rng.randint(12700, 50800000)])
        font.size = Emu(emu)
        add(f"c09.size {emu}", f"{sp.text_frame.paragraphs[0].runs[0]._r.rPr.get('sz')} {int(font.size)}", {"conv": "font.size", "emu": emu})
        f = dyadic(rng, -720, 720)
        sp.rotation = float(f)
        add(f"c09.angle {f.numerator} {f.denominator}", sp._element.spPr.xfrm.get("rot") or "0", {"conv": "rotation", "deg": str(f)})
        f = dyadic(rng, -1, 1, 20)
        pic.crop_left = float(f)
        add(f"c09.pct {f.numerator} {f.denominator}", pic._element.blipFill.srcRect.get("l") or "0", {"conv": "crop_left", "v": str(f)})
        f = dyadic(rng, -2, 3, 20)
        sp.adjustments[0] = float(f)
        gd = sp._element.spPr.prstGeom.avLst[0].get("fmla")
        add(f"c09.adj {f.numerator} {f.denominator}", gd.split(" ")[1], {"conv": "adjustment", "v": str(f)})
        f = dyadic(rng, -1, 1, 20)
        col = sp.fill.fore_color
        col.brightness = float(f)
        x = sp.fill._xPr.solidFill.schemeClr
        lm, lo = x.find("{%s}lumMod" % oplab_ns()), x.find("{%s}lumOff" % oplab_ns())
        o = lambda e: "n" if e is None else e.get("val")  # noqa: E731
        add(f"c09.bright {f.numerator} {f.denominator}", f"{o(lm)} {o(lo)} {round(col.brightness * 100000)}", {"conv": "brightness", "v": str(f)})
        f = dyadic(rng, -720, 720)
        g.fill.gradient_angle = float(f)
        ang = g.fill._xPr.gradFill.lin.get("ang")
        add(f"c09.grad {f.numerator} {f.denominator}", f"{ang} {round(g.fill.gradient_angle * 60000)}", {"conv": "gradient_angle", "deg": str(f)})
        f = dyadic(rng, 0, 132, 16)
        para.line_spacing = float(f)
        add(f"c09.pct {f.numerator} {f.denominator}", para._p.pPr.lnSpc.spcPct.get("val"), {"conv": "line_spacing", "v": str(f)})
    res = ctx.driver.run(lines)
    for line, i, m, meta in zip(lines, impl, res, metas):
        ctx.traces += 1
        if i != m:
            ctx.disagree("conversion", dict(meta, line=line), i, m)
    ctx.sample({"line": lines[0], "impl": impl[0]})


_CLR_TAGS = ["scrgbClr", "srgbClr", "hslClr", "sysClr", "schemeClr", "prstClr"]
_XF_TAGS = ["lumMod", "lumOff", "alpha", "satMod", "shade", "tint"]


def colours(ctx):
    """`ColorFormat` histories against `Model/Color` (`c09.color`): the colour of a font, a solid fill, a line, a gradient
    stop and a pattern foreground, from start states the library never writes itself (any kind of colour element, unknown
    transform children in any order, several a:lumMod / a:lumOff), under seeded rgb / theme_color / brightness assignments
    (out-of-range brightness and brightness without a colour included); after EVERY assignment the element as stored and
    the four readers, read through a proxy obtained at the start and through a new one"""
    from lxml import etree
    from pptx import Presentation
    from pptx.dml.color import RGBColor
    from pptx.enum.dml import MSO_COLOR_TYPE, MSO_THEME_COLOR
    from pptx.enum.dml import MSO_PATTERN
    from pptx.enum.shapes import MSO_SHAPE

    rng = ctx.rng
    A = oplab_ns()
    themes = [m for m in MSO_THEME_COLOR if m not in (MSO_THEME_COLOR.NOT_THEME_COLOR, MSO_THEME_COLOR.MIXED)]
    t_index = {MSO_THEME_COLOR.to_xml(m): i for i, m in enumerate(themes)}
    ty_no = {None: "n", MSO_COLOR_TYPE.SCRGB: "0", MSO_COLOR_TYPE.RGB: "1", MSO_COLOR_TYPE.HSL: "2", MSO_COLOR_TYPE.SYSTEM: "3",
             MSO_COLOR_TYPE.SCHEME: "4", MSO_COLOR_TYPE.PRESET: "5"}
    prs = Presentation()
    slide = prs.slides.add_slide(prs.slide_layouts[6])

    def site(kind):
        """(parent element of the colour choice, function delivering a NEW ColorFormat)"""
        sp = slide.shapes.add_shape(MSO_SHAPE.RECTANGLE, 0, 0, 99, 99)
        if kind == "font":
            r = sp.text_frame.paragraphs[0].add_run(); r.text = "t"
            r.font.fill.solid()
            return r._r.rPr.find("{%s}solidFill" % A), lambda: r.font.color
        if kind == "fill":
            sp.fill.solid()
            return sp._element.spPr.find("{%s}solidFill" % A), lambda: sp.fill.fore_color
        if kind == "line":
            sp.line.fill.solid()
            return sp._element.spPr.find("{%s}ln" % A).find("{%s}solidFill" % A), lambda: sp.line.color
        if kind == "stop":
            sp.fill.gradient()
            k = rng.randrange(len(sp.fill.gradient_stops))
            return sp.fill.gradient_stops[k]._gs, lambda: sp.fill.gradient_stops[k].color
        sp.fill.patterned(); sp.fill.pattern = MSO_PATTERN.CROSS
        which = rng.choice(["fore_color", "back_color"])
        getattr(sp.fill, which)
        tag = "fgClr" if which == "fore_color" else "bgClr"
        return sp._element.spPr.find("{%s}pattFill" % A).find("{%s}%s" % (A, tag)), lambda: getattr(sp.fill, which)

    def element(parent):
        for ch in parent:
            if etree.QName(ch).localname in _CLR_TAGS:
                return ch
        return None

    def dump(parent):
        e = element(parent)
        if e is None:
            return "-"
        k = _CLR_TAGS.index(etree.QName(e).localname)
        v = int(e.get("val"), 16) if k == 1 else t_index.get(e.get("val"), 0) if k == 4 else 0
        kids = ",".join("%d=%s" % (_XF_TAGS.index(etree.QName(c).localname), c.get("val")) for c in e)
        return "%d:%d:%s" % (k, v, kids or "!")

    def readers(c):
        out = [ty_no.get(c.type, "?")]
        try:
            x = c.rgb; out.append(str(int(str(x), 16)))
        except AttributeError:
            out.append("e")
        try:
            t = c.theme_color; out.append("x" if t == MSO_THEME_COLOR.NOT_THEME_COLOR else str(themes.index(t)))
        except AttributeError:
            out.append("e")
        try:
            out.append(str(round(c.brightness * 100000)))
        except AttributeError:
            out.append("e")
        return " ".join(out)

    lines, impl, metas = [], [], []
    n = 60 if ctx.quick else 900
    for hi in range(n):
        kind = rng.choice(["font", "fill", "line", "stop", "pattern"])
        parent, fresh = site(kind)
        old = element(parent)
        if old is not None:
            parent.remove(old)
        k = rng.choice([None, 1, 1, 4, 4, 0, 2, 3, 5])
        if k is None and kind in ("stop", "pattern"):
            k = 5   # a:gs, a:fgClr, a:bgClr REQUIRE a colour element: "no colour" is not a state of theirs
        if k is not None:
            attrs = {0: 'r="10000" g="20000" b="30000"', 1: 'val="%06X"' % rng.randrange(2**24), 2: 'hue="600000" sat="50000" lum="40000"',
                     3: 'val="windowText"', 4: 'val="%s"' % rng.choice(sorted(t_index)), 5: 'val="red"'}[k]
            kids = []
            for _ in range(rng.choice([0, 0, 1, 2, 3, 5])):
                t = rng.choice([0, 0, 1, 1, 2, 3, 4, 5])
                # a:alpha, a:shade, a:tint are fixed percentages (at most 100000); a:lumMod, a:lumOff, a:satMod are not bounded
                kids.append('<a:%s val="%d"/>' % (_XF_TAGS[t], rng.choice([0, 1, 25000, 50000, 75000, 100000, 120000 if t in (0, 1, 3) else 99999, rng.randint(0, 100000)])))
            e = etree.fromstring('<a:%s xmlns:a="%s" %s>%s</a:%s>' % (_CLR_TAGS[k], A, attrs, "".join(kids), _CLR_TAGS[k]))
            from pptx.oxml import parse_xml
            e = parse_xml(etree.tostring(e))
            # the colour choice comes first in every parent used here except a:gs / a:fgClr, where it is the only child
            parent.insert(0, e)
        start = dump(parent)
        held = fresh()
        outs = ["start|%s|%s" % (start, readers(held))]
        ops = []
        for _ in range(rng.randint(1, 8)):
            r = rng.random()
            if r < 0.25:
                v = rng.randrange(2**24)
                ops.append("r%d" % v)
                act = lambda c: setattr(c, "rgb", RGBColor(v >> 16, (v >> 8) & 255, v & 255))  # noqa: E731
            elif r < 0.5:
                t = rng.randrange(len(themes))
                ops.append("t%d" % t)
                act = lambda c: setattr(c, "theme_color", themes[t])  # noqa: E731
            else:
                f = rng.choice([Fraction(0), Fraction(1), Fraction(-1), Fraction(5, 4), Fraction(-9, 8), Fraction(1, 2), Fraction(-1, 4)]) if rng.random() < 0.4 \
                    else Fraction(rng.randint(-70, 70), 64)
                ops.append("b%d/%d" % (f.numerator, f.denominator))
                act = lambda c: setattr(c, "brightness", float(f))  # noqa: E731
            before = dump(parent)
            who = held if rng.random() < 0.5 else fresh()
            try:
                act(who)
                verdict = "ok"
            except ValueError:
                verdict = "ref"
                if dump(parent) != before:
                    ctx.fail("color:refused-but-changed", f"{kind} colour {before}: {ops[-1]} was refused with ValueError but the element is now {dump(parent)}",
                             {"site": kind, "start": start, "ops": list(ops)})
            a, b = readers(held), readers(fresh())
            if a != b:
                ctx.fail("color:stale-proxy", f"{kind} colour {dump(parent)} after {ops}: a ColorFormat obtained before reads (type rgb theme brightness) = {a}, "
                         f"one obtained now reads {b}", {"site": kind, "start": start, "ops": list(ops)})
            outs.append("%s|%s|%s" % (verdict, dump(parent), b))
            ctx.count("colour-op-" + ops[-1][0] + "-" + verdict)
        ctx.count("colour-site-" + kind); ctx.count("colour-start-" + ("none" if k is None else _CLR_TAGS[k]))
        line = "c09.color %s %s" % (start, ";".join(ops))
        lines.append(line); impl.append(";".join(outs)); metas.append({"conv": "colour", "site": kind, "start": start, "ops": ops})
        ctx.case(key=line)
    res = ctx.driver.run(lines)
    for line, i, m, meta in zip(lines, impl, res, metas):
        ctx.traces += 1
        if i != m:
            ctx.disagree("colour", dict(meta, line=line), i, m)
    # the whole slide must still be valid: transform children stay where the schema has them
    from harness import xmllab
    ok, msg = xmllab.validate(slide.part._element)
    if ok is False:
        ctx.fail("color:invalid-xml", f"slide after the colour histories: {msg}", {})


_FILL_TAGS = ["noFill", "solidFill", "gradFill", "blipFill", "pattFill", "grpFill"]


def fills(ctx):
    """`FillFormat` histories against `Model/Fill` (`c09.fill`): the fill of a shape, a line, a font and a table cell, from
    start states the library never writes itself (gradients without a:lin, with a:path, without stops; patterns without
    colours; colours of any kind with foreign transforms), under seeded calls - the four type changes, pattern, fore / back
    colour assignments, gradient angle, stop colour and position, refused values and calls the fill kind does not support
    included; after EVERY call its outcome (ok / TypeError / ValueError / IndexError), the fill element as stored and the
    readers, each call made through a FillFormat held from the start or through a new one"""
    from lxml import etree
    from pptx import Presentation
    from pptx.dml.color import RGBColor
    from pptx.enum.dml import MSO_FILL, MSO_PATTERN, MSO_THEME_COLOR
    from pptx.enum.shapes import MSO_SHAPE
    from pptx.oxml import parse_xml

    rng = ctx.rng
    A = oplab_ns()
    themes = [m for m in MSO_THEME_COLOR if m not in (MSO_THEME_COLOR.NOT_THEME_COLOR, MSO_THEME_COLOR.MIXED)]
    t_index = {MSO_THEME_COLOR.to_xml(m): i for i, m in enumerate(themes)}
    a1 = t_index["accent1"]
    patterns = [m for m in MSO_PATTERN if m != MSO_PATTERN.MIXED]
    p_index = {MSO_PATTERN.to_xml(m): i for i, m in enumerate(patterns)}
    kind_no = {None: "N", MSO_FILL.BACKGROUND: "0", MSO_FILL.SOLID: "S", MSO_FILL.GRADIENT: "R", MSO_FILL.PICTURE: "B", MSO_FILL.PATTERNED: "P", MSO_FILL.GROUP: "G"}
    prs = Presentation()
    slide = prs.slides.add_slide(prs.slide_layouts[6])

    def q(t):
        return "{%s}%s" % (A, t)

    def site(kind):
        if kind == "background":
            # a slide's background (p:bgPr): one slide per history
            bs = prs.slides.add_slide(prs.slide_layouts[6])
            k_ = len(prs.slides) - 1
            bs.background.fill.solid()
            return bs._element.cSld.bg.bgPr, lambda: prs.slides[k_].background.fill, None
        sp = slide.shapes.add_shape(MSO_SHAPE.RECTANGLE, 0, 0, 99, 99)
        sid = sp.shape_id
        again = lambda: [x for x in slide.shapes if x.shape_id == sid][0]  # noqa: E731  (a NEW shape proxy each time)
        if kind == "shape":
            return sp._element.spPr, lambda: again().fill, None
        if kind == "line":
            sp.line.width = 12700
            return sp._element.spPr.find(q("ln")), lambda: again().line.fill, lambda: again().line
        if kind == "font":
            r = sp.text_frame.paragraphs[0].add_run(); r.text = "t"; r.font.bold = True
            return r._r.rPr, lambda: again().text_frame.paragraphs[0].runs[0].font.fill, lambda: again().text_frame.paragraphs[0].runs[0].font
        if kind == "series":
            from pptx.chart.data import CategoryChartData
            from pptx.enum.chart import XL_CHART_TYPE
            cd = CategoryChartData(); cd.categories = ["a", "b"]; cd.add_series("s", [1, 2])
            gf = slide.shapes.add_chart(XL_CHART_TYPE.COLUMN_CLUSTERED, 0, 0, 99, 99, cd)
            cid = gf.shape_id
            gf.chart.plots[0].series[0].format.fill.solid()
            ser = gf.chart.plots[0].series[0]._element
            return ser.find("{http://schemas.openxmlformats.org/drawingml/2006/chart}spPr"), \
                lambda: [x for x in slide.shapes if x.shape_id == cid][0].chart.plots[0].series[0].format.fill, None
        gf = slide.shapes.add_table(1, 1, 0, 0, 99, 99)
        gid = gf.shape_id
        gf.table.cell(0, 0).margin_left = 5
        return gf.table.cell(0, 0)._tc.tcPr, lambda: [x for x in slide.shapes if x.shape_id == gid][0].table.cell(0, 0).fill, None

    def clr_xml():
        k = rng.choice([1, 1, 4, 4, 0, 2, 3, 5])
        attrs = {0: 'r="10000" g="20000" b="30000"', 1: 'val="%06X"' % rng.randrange(2**24), 2: 'hue="600000" sat="50000" lum="40000"',
                 3: 'val="windowText"', 4: 'val="%s"' % rng.choice(sorted(t_index)), 5: 'val="red"'}[k]
        kids = []
        for _ in range(rng.choice([0, 0, 1, 2, 3])):
            t = rng.choice([0, 0, 1, 1, 2, 3, 4, 5])
            kids.append('<a:%s val="%d"/>' % (_XF_TAGS[t], rng.choice([0, 1, 25000, 50000, 75000, 100000, 120000 if t in (0, 1, 3) else 99999, rng.randint(0, 100000)])))
        return '<a:%s %s>%s</a:%s>' % (_CLR_TAGS[k], attrs, "".join(kids), _CLR_TAGS[k])

    def start_xml(kind):
        opts = ["N", "0", "S", "S", "R", "R", "R", "P", "P"] + (["B", "G"] if kind in ("shape", "series") else [])
        if kind == "background":
            opts = [o for o in opts if o != "N"]    # p:bgPr REQUIRES a fill
        k = rng.choice(opts)
        if k == "N":
            return None
        if k == "0":
            return "<a:noFill/>"
        if k == "B":
            return "<a:blipFill><a:blip/></a:blipFill>"
        if k == "G":
            return "<a:grpFill/>"
        if k == "S":
            return "<a:solidFill>%s</a:solidFill>" % (clr_xml() if rng.random() < 0.8 else "")
        if k == "R":
            n = rng.choice([None, 2, 2, 3, 4])
            gs = "" if n is None else "<a:gsLst>%s</a:gsLst>" % "".join('<a:gs pos="%d">%s</a:gs>' % (rng.choice([0, 100000, 50000, rng.randint(0, 100000)]), clr_xml()) for _ in range(n))
            shade = rng.choice(["", '<a:lin scaled="0"/>', '<a:lin ang="%d" scaled="1"/>' % rng.choice([0, 5400000, 21599999, rng.randint(0, 21599999)]), '<a:path path="circle"/>'])
            return "<a:gradFill>%s%s</a:gradFill>" % (gs, shade)
        prst = "" if rng.random() < 0.4 else ' prst="%s"' % rng.choice(sorted(p_index))
        fg = "" if rng.random() < 0.5 else "<a:fgClr>%s</a:fgClr>" % clr_xml()
        bg = "" if rng.random() < 0.5 else "<a:bgClr>%s</a:bgClr>" % clr_xml()
        return "<a:pattFill%s>%s%s</a:pattFill>" % (prst, fg, bg)

    def fill_elm(parent):
        for ch in parent:
            if etree.QName(ch).localname in _FILL_TAGS and etree.QName(ch).namespace == A:
                return ch
        return None

    def dump_clr(parent):
        e = next((ch for ch in parent if etree.QName(ch).localname in _CLR_TAGS), None)
        if e is None:
            return "-"
        k = _CLR_TAGS.index(etree.QName(e).localname)
        v = int(e.get("val"), 16) if k == 1 else t_index.get(e.get("val"), 0) if k == 4 else 0
        kids = ",".join("%d=%s" % (_XF_TAGS.index(etree.QName(c).localname), c.get("val")) for c in e)
        return "%d:%d:%s" % (k, v, kids or "!")

    def dump(parent):
        e = fill_elm(parent)
        if e is None:
            return "N"
        t = etree.QName(e).localname
        if t in ("noFill", "blipFill", "grpFill"):
            return {"noFill": "0", "blipFill": "B", "grpFill": "G"}[t]
        if t == "solidFill":
            return "S/" + dump_clr(e)
        if t == "gradFill":
            lin, path, gl = e.find(q("lin")), e.find(q("path")), e.find(q("gsLst"))
            stops = [] if gl is None else ["%s@%s" % (g.get("pos"), dump_clr(g)) for g in gl]
            return "R/%s/%d/%s" % ("n" if lin is None else (lin.get("ang") or "0"), path is not None, "+".join(stops) or "!")
        fg, bg = e.find(q("fgClr")), e.find(q("bgClr"))
        return "P/%s/%s/%s" % ("n" if e.get("prst") is None else p_index[e.get("prst")], "~" if fg is None else dump_clr(fg), "~" if bg is None else dump_clr(bg))

    def readers(f):
        out = [kind_no.get(f.type, "?")]
        try:
            p_ = f.pattern; out.append("n" if p_ is None else str(patterns.index(p_)))
        except TypeError:
            out.append("T")
        try:
            a = f.gradient_angle; out.append("n" if a is None else str(round(a * 60000)))
        except TypeError:
            out.append("T")
        except ValueError:
            out.append("V")
        try:
            out.append(str(len(f.gradient_stops)))
        except TypeError:
            out.append("T")
        return " ".join(out)

    def colour_op():
        r = rng.random()
        if r < 0.35:
            v = rng.randrange(2**24)
            return "r%d" % v, lambda c: setattr(c, "rgb", RGBColor(v >> 16, (v >> 8) & 255, v & 255))
        if r < 0.65:
            t = rng.randrange(len(themes))
            return "t%d" % t, lambda c: setattr(c, "theme_color", themes[t])
        f = rng.choice([Fraction(0), Fraction(1), Fraction(-1), Fraction(5, 4), Fraction(1, 2), Fraction(-1, 4), Fraction(rng.randint(-70, 70), 64)])
        return "b%d/%d" % (f.numerator, f.denominator), lambda c: setattr(c, "brightness", float(f))

    lines, impl, metas = [], [], []
    n = 80 if ctx.quick else 1200
    SCRIPTS = [("c:r66051", "bg", "c:r263430"), ("c:r66051", "gr", "c:r263430"), ("c:r66051", "pa", "c:r263430")] * 2
    for hi in range(n):
        kind = rng.choice(["shape", "shape", "line", "font", "cell", "series", "background"])
        if hi < len(SCRIPTS):
            kind = "line" if hi < 3 else "font"
        parent, fresh, owner = site(kind)
        fresh().solid()                       # the library puts the fill element where the schema has it ...
        sx = start_xml(kind)
        old = fill_elm(parent)
        if sx is None:
            parent.remove(old)
        else:
            parent.replace(old, parse_xml('<a:w xmlns:a="%s">%s</a:w>' % (A, sx))[0])   # ... and the start state takes its place
        start = dump(parent)
        held = fresh()
        # the owner of the fill (a LineFormat, a Font) has a `.color` shortcut of its own: one owner is held for the whole
        # history - its FillFormat is its own, a third proxy of the same element
        held_owner = owner() if owner else None
        outs = ["start|%s|%s" % (start, readers(held))]
        ops = []
        # in every run: the owner's shortcut, a type change, the shortcut again - through ONE owner object
        scripted = list(SCRIPTS[hi]) if hi < len(SCRIPTS) else []
        for _ in range(len(scripted) or rng.randint(1, 9)):
            r = rng.random()
            who = held if rng.random() < 0.5 else fresh()
            if scripted:
                tok = scripted.pop(0)
                if tok.startswith("c:"):
                    v = int(tok[3:])
                    act = lambda f: setattr(held_owner.color, "rgb", RGBColor(v >> 16, (v >> 8) & 255, v & 255))  # noqa: E731
                else:
                    act = {"bg": lambda f: f.background(), "gr": lambda f: f.gradient(), "pa": lambda f: f.patterned()}[tok]
            elif owner and rng.random() < 0.2:
                ctok, cact = colour_op()
                ow = held_owner if rng.random() < 0.6 else owner()
                tok, act = "c:" + ctok, lambda f, ow=ow, cact=cact: cact(ow.color)
            elif r < 0.3:
                tok, act = rng.choice([("bg", lambda f: f.background()), ("so", lambda f: f.solid()), ("gr", lambda f: f.gradient()), ("pa", lambda f: f.patterned())])
            elif r < 0.4:
                pv = rng.choice([None] + list(range(len(patterns))))
                tok, act = "pt%s" % ("n" if pv is None else pv), lambda f: setattr(f, "pattern", None if pv is None else patterns[pv])
            elif r < 0.6:
                ctok, cact = colour_op()
                tok, act = "f:" + ctok, lambda f: cact(f.fore_color)
            elif r < 0.7:
                ctok, cact = colour_op()
                tok, act = "k:" + ctok, lambda f: cact(f.back_color)
            elif r < 0.8:
                fr = dyadic(rng, -720, 720)
                tok, act = "an%d/%d" % (fr.numerator, fr.denominator), lambda f: setattr(f, "gradient_angle", float(fr))
            elif r < 0.9:
                i = rng.randint(0, 4)
                ctok, cact = colour_op()
                tok, act = "sc%d:%s" % (i, ctok), lambda f: cact(f.gradient_stops[i].color)
            else:
                i = rng.randint(0, 4)
                fr = rng.choice([Fraction(0), Fraction(1), Fraction(1, 2), Fraction(-1, 64), Fraction(65, 64), Fraction(rng.randint(0, 64), 64)])
                tok, act = "sp%d:%d/%d" % (i, fr.numerator, fr.denominator), lambda f: setattr(f.gradient_stops[i], "position", float(fr))
            ops.append(tok)
            try:
                act(who)
                res = "ok"
            except TypeError:
                res = "T"
            except ValueError:
                res = "V"
            except IndexError:
                res = "I"
            except AttributeError as e:
                res = "A"
                ctx.fail("fill:undocumented-exception:" + tok[:2], f"{kind} fill {dump(parent)}: call {tok} raised AttributeError ({e}); the documented refusals are TypeError "
                         f"(the fill kind does not have it) and ValueError", {"site": kind, "start": start, "ops": list(ops)})
            if tok.startswith("c:") and res == "ok" and not dump(parent).startswith("S/"):
                ctx.fail("fill:color-shortcut-lost", f"{kind}: after {ops} the assignment through .color was accepted, but the fill is {dump(parent)}: "
                         f"'accessing this property causes the fill type to be set to SOLID'", {"site": kind, "start": start, "ops": list(ops)})
            a, b = readers(held), readers(fresh())
            if a != b:
                ctx.fail("fill:stale-proxy", f"{kind} fill {dump(parent)} after {ops}: a FillFormat obtained before reads (type pattern angle stops) = {a}, "
                         f"one obtained now reads {b}", {"site": kind, "start": start, "ops": list(ops)})
                held = fresh()   # go on with a proxy that sees the element
            outs.append("%s|%s|%s" % (res, dump(parent), b))
            ctx.count("fill-op-" + tok[:2].rstrip(":0123456789") + "-" + res)
        ctx.count("fill-site-" + kind); ctx.count("fill-start-" + start[0])
        # a line's new gradient is a bare a:gradFill (CT_LineProperties does not override _new_gradFill), every other site's the template
        line = "c09.fill %s %s %s" % ("n" if kind == "line" else a1, start, ";".join(ops))
        lines.append(line); impl.append(";".join(outs)); metas.append({"conv": "fill", "site": kind, "start": start, "ops": ops})
        ctx.case(key=line)
    res = ctx.driver.run(lines)
    for line, i, m, meta in zip(lines, impl, res, metas):
        ctx.traces += 1
        if i != m:
            ctx.disagree("fill", dict(meta, line=line), i, m)
    # every part touched is still valid: each fill element sits where the schema has it, with the children it may have
    from harness import xmllab
    from harness.props.c03 import strip_known
    for part in [s_.part for s_ in prs.slides] + [sh.chart.part for sh in slide.shapes if getattr(sh, "has_chart", False)]:
        root = etree.fromstring(etree.tostring(part._element))   # a plain lxml tree
        strip_known(root)    # the chart templates' negative axis ids are a listed finding of C03 / C07
        ok, msg = xmllab.validate(root)
        if ok is False:
            ctx.fail("fill:invalid-xml", f"{part.partname} after the fill histories: {msg}", {})


def shared_relationships(ctx):
    """independence ACROSS objects that share a relationship: shapes (click actions) and runs on one slide given the SAME
    address hold one relationship between them; assigning another address (or None) to one of them leaves what every other
    one reads, now and after save + re-open"""
    from pptx import Presentation
    from pptx.enum.shapes import MSO_SHAPE

    rng = ctx.rng
    for trial in range(6 if ctx.quick else 60):
        prs = Presentation()
        slide = prs.slides.add_slide(prs.slide_layouts[6])
        urls = ["http://example.com/%d" % k for k in range(3)]
        holders = []
        scripted = trial == 0    # in every run: two click actions and two runs on one address, one of each re-assigned, then cleared
        for k in range(4 if scripted else rng.randint(3, 6)):
            sp = slide.shapes.add_shape(MSO_SHAPE.RECTANGLE, 0, 0, 99, 99)
            if (k < 2) if scripted else (rng.random() < 0.6):
                h = sp.click_action.hyperlink
                get = lambda sp=sp: sp.click_action.hyperlink.address  # noqa: E731
                put = lambda v, sp=sp: setattr(sp.click_action.hyperlink, "address", v)  # noqa: E731
                what = "click_action.hyperlink"
            else:
                r = sp.text_frame.paragraphs[0].add_run(); r.text = "t"
                get = lambda r=r: r.hyperlink.address  # noqa: E731
                put = lambda v, r=r: setattr(r.hyperlink, "address", v)  # noqa: E731
                what = "run.hyperlink"
            holders.append([what, get, put, None])
        hist = []
        script = [(0, urls[0]), (1, urls[0]), (2, urls[0]), (3, urls[0]), (0, urls[1]), (2, urls[1]), (1, None), (3, None), (0, urls[0])] if scripted else []
        for step in range(len(script) or rng.randint(3, 10)):
            i, v = script[step] if scripted else (rng.randrange(len(holders)), rng.choice(urls + [urls[0], None]))
            holders[i][2](v); holders[i][3] = v
            hist.append((i, v))
            got = [h[1]() for h in holders]
            want = [h[3] for h in holders]
            ctx.case(key=("shared-rel", tuple(h[0] for h in holders), tuple(hist)))
            if got != want:
                j = next(k for k in range(len(got)) if got[k] != want[k])
                ctx.fail("independence:shared-relationship", f"holders {[h[0] for h in holders]}, assignments {hist}: holder {j} ({holders[j][0]}) reads {got[j]!r}, "
                         f"the last address assigned to it is {want[j]!r}", {"holders": [h[0] for h in holders], "history": hist})
                break
        else:
            b = io.BytesIO(); prs.save(b)
            sl2 = Presentation(io.BytesIO(b.getvalue())).slides[0]
            got = []
            for sh, h in zip(sl2.shapes, holders):
                got.append(sh.click_action.hyperlink.address if h[0].startswith("click") else sh.text_frame.paragraphs[0].runs[0].hyperlink.address)
            if got != [h[3] for h in holders]:
                ctx.fail("independence:shared-relationship", f"holders {[h[0] for h in holders]}, assignments {hist}: after save and re-open the addresses read {got}", {"history": hist})
        ctx.count("shared-relationship-histories")


def point_order(ctx):
    """the points of ONE series formatted in any order of their indexes (descending, interleaved, the same one twice): each
    point reads back what it was given - through new proxies, and after save + re-open - and the series holds one c:dPt per
    formatted point"""
    from pptx import Presentation
    from pptx.chart.data import CategoryChartData
    from pptx.dml.color import RGBColor
    from pptx.enum.chart import XL_CHART_TYPE

    rng = ctx.rng
    orders = [[3, 1, 2, 0], [2, 0, 2, 1], [4, 0], [1, 1, 0]] + [[rng.randrange(5) for _ in range(rng.randint(2, 6))] for _ in range(2 if ctx.quick else 30)]
    for order in orders:
        for ct in (XL_CHART_TYPE.COLUMN_CLUSTERED, XL_CHART_TYPE.LINE_MARKERS):
            prs = Presentation(); slide = prs.slides.add_slide(prs.slide_layouts[6])
            cd = CategoryChartData(); cd.categories = list("abcde"); cd.add_series("s", [1, 2, 3, 4, 5])
            slide.shapes.add_chart(ct, 0, 0, 99, 99, cd)
            ser = lambda p_=prs: p_.slides[0].shapes[0].chart.plots[0].series[0]  # noqa: E731
            want = {}
            for step, i in enumerate(order):
                rgb = RGBColor(10 * step + 1, i, 200)
                pt = ser().points[i]
                pt.format.fill.solid(); pt.format.fill.fore_color.rgb = rgb
                want[i] = [str(rgb), None]
                if ct == XL_CHART_TYPE.LINE_MARKERS:
                    ser().points[i].marker.size = 5 + step
                    want[i][1] = 5 + step
            case = {"chart": ct.name, "order": order}
            ctx.case(key=("point-order", ct.name, tuple(order))); ctx.count("point-order-histories")

            def reads(series):
                out = {}
                for i in want:
                    p_ = series.points[i]
                    f = p_.format.fill
                    out[i] = [str(f.fore_color.rgb) if f.type is not None else None, p_.marker.size if want[i][1] is not None else None]
                return out
            for label, series in (("", ser()), (" after save and re-open", None)):
                if series is None:
                    b = io.BytesIO(); prs.save(b)
                    series = Presentation(io.BytesIO(b.getvalue())).slides[0].shapes[0].chart.plots[0].series[0]
                idxs = [int(x) for x in series._element.xpath("./c:dPt/c:idx/@val")]
                got = reads(series)
                if got != want or sorted(set(idxs)) != sorted(idxs):
                    ctx.fail("point-format:order", f"{ct.name}: points formatted in the order {order}{label} read {got}, assigned {want}; c:dPt indexes in the series: {idxs}", case)
                    break


def adjustment_proxies(ctx):
    """the adjustments of ONE shape assigned through several shape proxies in turn (every `slide.shapes[i]` is a new one, each
    with its own AdjustmentCollection): every adjustment reads the last value assigned to it - whichever proxy wrote it -
    and the others stay, through every proxy and after save + re-open"""
    from pptx import Presentation
    from pptx.enum.shapes import MSO_SHAPE

    rng = ctx.rng
    kinds = [MSO_SHAPE.BLOCK_ARC, MSO_SHAPE.ROUNDED_RECTANGULAR_CALLOUT, MSO_SHAPE.LEFT_RIGHT_ARROW, MSO_SHAPE.DONUT, MSO_SHAPE.CIRCULAR_ARROW]
    scripts = [[(0, 0, Fraction(3, 10)), (1, 1, Fraction(7, 10)), (0, 2, Fraction(1, 10))]]   # (proxy, index, value): in every run
    for trial in range(8 if ctx.quick else 80):
        prs = Presentation(); slide = prs.slides.add_slide(prs.slide_layouts[6])
        kind = kinds[trial % len(kinds)]
        slide.shapes.add_shape(kind, 0, 0, 999, 999)
        proxies = [slide.shapes[0] for _ in range(3)]
        n = len(proxies[0].adjustments)
        want = [proxies[0].adjustments[i] for i in range(n)]
        hist = []
        script = scripts[trial] if trial < len(scripts) else [(rng.randrange(3), rng.randrange(n), Fraction(rng.randint(-20, 120), 100)) for _ in range(rng.randint(2, 8))]
        if n < 2:
            continue
        for k, i, v in script:
            i = i % n
            proxies[k].adjustments[i] = float(v)
            want[i] = int(float(v) * 100000.0) / 100000.0
            hist.append((k, i, str(v)))
            reads = {"a new proxy": [slide.shapes[0].adjustments[j] for j in range(n)]}
            for q in range(3):
                reads["proxy %d" % q] = [proxies[q].adjustments[j] for j in range(n)]
            ctx.case(key=("adjustment-proxies", kind.name, tuple(hist)))
            bad = {w: r for w, r in reads.items() if r != want}
            if bad:
                w, r = sorted(bad.items())[0]
                ctx.fail("independence:adjustments-across-proxies", f"{kind.name}: assignments (proxy, index, value) {hist}: {w} reads {r}, the last values assigned are {want}",
                         {"shape": kind.name, "history": hist})
                break
        else:
            b = io.BytesIO(); prs.save(b)
            got = Presentation(io.BytesIO(b.getvalue())).slides[0].shapes[0].adjustments
            if [got[j] for j in range(n)] != want:
                ctx.fail("independence:adjustments-across-proxies", f"{kind.name}: assignments {hist}: after save and re-open the adjustments read {[got[j] for j in range(n)]}, assigned {want}",
                         {"shape": kind.name, "history": hist})
        ctx.count("adjustment-proxy-histories")
    # the same against `Model/Adjust` (`c09.adjs`): guides to start from that the library never writes (one missing, several
    # under one name, names that are no adjustment of the shape), assignments through proxies in turn, an index outside
    # the adjustments now and then; after EVERY assignment the guides as stored and every adjustment as read
    from lxml import etree
    from pptx.shapes.autoshape import AutoShapeType
    A = oplab_ns()
    lines, impl, metas = [], [], []
    for trial in range(40 if ctx.quick else 600):
        prs = Presentation(); slide = prs.slides.add_slide(prs.slide_layouts[6])
        kind = rng.choice(kinds)
        sp0 = slide.shapes.add_shape(kind, 0, 0, 999, 999)
        prst = sp0._element.spPr.prstGeom
        davs = AutoShapeType.default_adjustment_values(prst.prst)
        names = [nm for nm, _ in davs] + ["zz9", "adjX"]
        code = {nm: k for k, nm in enumerate(names)}
        start = []
        for _ in range(rng.choice([0, 1, 2, 3, 5])):
            start.append((rng.choice(names), rng.choice([0, 1, 50000, 100000, -5000, rng.randint(-100000, 200000)])))
        for ch in list(prst):
            prst.remove(ch)
        av = etree.SubElement(prst, "{%s}avLst" % A)
        for nm, v in start:
            gd = etree.SubElement(av, "{%s}gd" % A); gd.set("name", nm); gd.set("fmla", "val %d" % v)
        proxies = [slide.shapes[0] for _ in range(2)]
        n = len(davs)

        def state():
            gds = prst.xpath("./a:avLst/a:gd")
            g = ",".join("%d=%s" % (code[x.get("name")], x.get("fmla")[4:]) for x in gds) or "!"
            rd = ",".join(str(round(slide.shapes[0].adjustments[j] * 100000)) for j in range(n)) or "!"
            return g + "|" + rd
        outs = ["start|" + state()]
        ops = []
        for _ in range(rng.randint(1, 6)):
            i = rng.choice(list(range(n)) + [n, n + 3])
            f = Fraction(rng.randint(-40, 160), 128)
            v = int(float(f) * 100000.0)
            ops.append("%d:%d" % (i, v))
            try:
                proxies[rng.randrange(2)].adjustments[i] = float(f)
                outs.append("ok|" + state())
            except IndexError:
                outs.append("I|" + state())
        line = "c09.adjs %s %s %s" % (",".join("%d:%d" % (code[nm], d_) for nm, d_ in davs), ",".join("%d=%d" % (code[nm], v) for nm, v in start) or "!", ";".join(ops))
        lines.append(line); impl.append(";".join(outs)); metas.append({"conv": "adjustments", "shape": kind.name, "start": start, "ops": ops})
        ctx.case(key=line); ctx.count("adjustment-model-histories")
    for line, i, m, meta in zip(lines, impl, ctx.driver.run(lines), metas):
        ctx.traces += 1
        if i != m:
            ctx.disagree("adjustments", dict(meta, line=line), i, m)


def spacings(ctx):
    """paragraph spacing against `Model/Spacing` (`c09.spc`): start states the library never writes (no a:pPr, a spacing element
    holding both children, or - for spcBef / spcAft - none), seeded histories of assignments to line_spacing / space_before /
    space_after (None, Lengths, numbers of lines, plain ints, values just outside the domain) through a paragraph proxy held
    from the start or a new one; after EVERY assignment the verdict, the stored elements and the three readings"""
    from lxml import etree
    from pptx import Presentation
    from pptx.util import Emu, Length

    rng = ctx.rng
    A = oplab_ns()
    names = {"L": ("lnSpc", "line_spacing"), "B": ("spcBef", "space_before"), "A": ("spcAft", "space_after")}
    scripts = [("0:-:-:-", ["B=e76263", "L=l175000", "L=e-1", "A=n"]),
               ("1:150000/1200:n/n:-", ["A=e20116800", "L=l13200001", "L=n", "B=e127"]),
               ("1:-:80000/n:n/300", ["L=e152400", "L=l0", "B=e20116801", "A=l254"])]
    lines, impl, metas = [], [], []
    for trial in range(40 if ctx.quick else 800):
        prs = Presentation(); slide = prs.slides.add_slide(prs.slide_layouts[6])
        tf = slide.shapes.add_textbox(0, 0, 99999, 99999).text_frame
        para = tf.paragraphs[0]
        p = para._p

        def slot_txt():
            k = rng.randrange(7)
            if k < 2:
                return "-"
            a = str(rng.choice([0, 90000, 100000, 150000, 13200000])) if k in (2, 4) else "n"
            b = str(rng.choice([0, 1, 600, 1200, 158400])) if k in (3, 4, 5) else "n"
            return a + "/" + b
        if trial < len(scripts):
            start, ops = scripts[trial]
        else:
            if rng.randrange(4) == 0:
                start = "0:-:-:-"
            else:
                ln = slot_txt()
                while ln == "n/n":          # a:lnSpc with neither child: reading is an AttributeError, kept for one scripted case
                    ln = slot_txt()
                start = "1:%s:%s:%s" % (ln, slot_txt(), slot_txt())
            ops = []
            for _ in range(rng.randint(1, 7)):
                w = rng.choice("LBA")
                k = rng.randrange(10)
                if k == 0:
                    v = "n"
                elif k < 5:
                    v = "e%d" % rng.choice([0, 1, 126, 127, 128, 12700, 76200, 76263, 20116800, 20116801, -1, -127, rng.randint(0, 20116800)])
                elif w == "L":
                    v = "l%d" % rng.choice([0, 1, 100000, 150000, 175000, 200000, 13200000, 13200001, -1, rng.randint(0, 13200000)])
                else:
                    v = "l%d" % rng.choice([0, 126, 127, 254, 12700, 20116800, 20116801, -1])      # a plain int: an EMU count
                ops.append(w + "=" + v)
        flag, *slots = start.split(":")
        if flag == "1":
            pPr = p.get_or_add_pPr()
            for (tag, _), txt in zip(names.values(), slots):
                if txt == "-":
                    continue
                a, b = txt.split("/")
                el = etree.SubElement(pPr, "{%s}%s" % (A, tag))
                if a != "n":
                    etree.SubElement(el, "{%s}spcPct" % A).set("val", a)
                if b != "n":
                    etree.SubElement(el, "{%s}spcPts" % A).set("val", b)

        def state():
            pPr = p.find("{%s}pPr" % A)
            out = ["1" if pPr is not None else "0"]
            for tag, _ in names.values():
                els = [] if pPr is None else pPr.findall("{%s}%s" % (A, tag))
                if not els:
                    out.append("-"); continue
                if len(els) > 1:
                    out.append("several"); continue
                pc = els[0].findall("{%s}spcPct" % A); pt = els[0].findall("{%s}spcPts" % A)
                if len(pc) > 1 or len(pt) > 1 or len(els[0]) != len(pc) + len(pt):
                    out.append("other"); continue
                out.append("%s/%s" % (pc[0].get("val") if pc else "n", pt[0].get("val") if pt else "n"))
            rd = []
            q = tf.paragraphs[0]
            for _, attr in names.values():
                try:
                    v = getattr(q, attr)
                except AttributeError:
                    rd.append("X"); continue
                if v is None:
                    rd.append("n")
                elif isinstance(v, Length):
                    rd.append("e%d" % int(v))
                else:
                    rd.append("l%d" % round(Fraction(v) * 100000))
            return ":".join(out) + "|" + ",".join(rd)
        outs = ["start|" + state()]
        want = outs[0].split("|")[-1].split(",")
        for op in ops:
            w, v = op.split("=")
            attr = names[w][1]
            if v == "n":
                val = None
            elif v[0] == "e":
                val = Emu(int(v[1:]))
            elif w == "L":
                n = int(v[1:])
                val = n // 100000 if n % 100000 == 0 and rng.randrange(2) else n / 100000.0
            else:
                val = int(v[1:])
            target = para if rng.randrange(2) else tf.paragraphs[0]
            dom = (0 <= int(v[1:]) <= (13200000 if (w == "L" and v[0] == "l") else 20116800)) if v != "n" else True
            try:
                setattr(target, attr, val)
                outs.append("ok|" + state())
                want["LBA".index(w)] = "n" if v == "n" else v if (w == "L" and v[0] == "l") else "e%d" % (int(v[1:]) // 127 * 127)
                if not dom:
                    ctx.fail("domain:spacing", f"paragraph {start} after {ops[:len(outs) - 2]}: {attr} = {val!r} is accepted, the schema cannot hold it", {"start": start, "ops": ops[:len(outs) - 1]})
            except ValueError:
                outs.append("V|" + state())
                if dom:
                    ctx.fail("domain:spacing", f"paragraph {start} after {ops[:len(outs) - 2]}: {attr} = {val!r} is refused with ValueError, it is inside the documented domain", {"start": start, "ops": ops[:len(outs) - 1]})
            got = outs[-1].split("|")[-1].split(",")
            if got != want and "X" not in want:
                ctx.fail("readback:spacing", f"paragraph {start}: after {ops[:len(outs) - 1]} (n = None, e = EMU, l = 1/100000 lines) line_spacing, space_before, space_after read {got}, "
                         f"the last values assigned (as stored) are {want}", {"start": start, "ops": ops[:len(outs) - 1]})
                break
        ops = ops[:len(outs) - 1]
        line = "c09.spc %s %s" % (start, ";".join(ops) or "!")
        lines.append(line); impl.append(";".join(outs)); metas.append({"conv": "spacing", "start": start, "ops": ops})
        ctx.case(key=line); ctx.count("spacing-model-histories")
        if trial % 8 == 0 and "X" not in outs[-1]:
            b = io.BytesIO(); prs.save(b)
            q = Presentation(io.BytesIO(b.getvalue())).slides[0].shapes[0].text_frame.paragraphs[0]
            before = [getattr(tf.paragraphs[0], a_) for _, a_ in names.values()]
            after = [getattr(q, a_) for _, a_ in names.values()]
            if before != after:
                ctx.fail("reopen:spacing", f"paragraph {start} after {ops}: spacing reads {before}, after save and re-open {after}", {"start": start, "ops": ops})
    for line, i, m, meta in zip(lines, impl, ctx.driver.run(lines), metas):
        ctx.traces += 1
        if i != m:
            ctx.disagree("spacing", dict(meta, line=line), i, m)


def autofits(ctx):
    """`TextFrame.auto_size` against `Model/Autofit` (`c09.fit`): a:bodyPr with any autofit children to start from (several, of several
    kinds, a:normAutofit with fontScale / lnSpcReduction as PowerPoint writes it), seeded histories of None / members / non-members
    through a held or a new text-frame proxy; verdict, children as stored and the reading after EVERY assignment, and after re-open"""
    from lxml import etree
    from pptx import Presentation
    from pptx.enum.text import MSO_AUTO_SIZE

    rng = ctx.rng
    A = oplab_ns()
    tags = ["noAutofit", "normAutofit", "spAutoFit"]
    members = [MSO_AUTO_SIZE.NONE, MSO_AUTO_SIZE.TEXT_TO_FIT_SHAPE, MSO_AUTO_SIZE.SHAPE_TO_FIT_TEXT]
    scripts = [("2/n/n,1/62500/20000,0/n/n", ["x", "2", "x", "n", "1"]), ("1/62500/n", ["1", "n"]), ("!", ["0", "1", "2", "n"])]
    lines, impl, metas = [], [], []
    for trial in range(30 if ctx.quick else 500):
        prs = Presentation(); slide = prs.slides.add_slide(prs.slide_layouts[6])
        sp = slide.shapes.add_textbox(0, 0, 99999, 99999) if trial % 2 else slide.shapes.add_shape(1, 0, 0, 99999, 99999)
        tf = sp.text_frame
        bodyPr = tf._txBody.bodyPr
        if trial < len(scripts):
            start, ops = scripts[trial]
        else:
            els = []
            for _ in range(rng.choice([0, 1, 1, 2, 3])):
                k = rng.randrange(3)
                els.append("%d/%s/%s" % (k, rng.choice(["n", "62500", "90000"]) if k == 1 else "n", rng.choice(["n", "20000"]) if k == 1 else "n"))
            start = ",".join(els) or "!"
            ops = [rng.choice(["n", "0", "1", "2", "0", "1", "2", "x"]) for _ in range(rng.randint(1, 6))]
        for tag in tags:
            for el in bodyPr.findall("{%s}%s" % (A, tag)):
                bodyPr.remove(el)
        if start != "!":
            for t in start.split(","):
                k, a, b = t.split("/")
                el = etree.Element("{%s}%s" % (A, tags[int(k)]))
                if a != "n":
                    el.set("fontScale", a)
                if b != "n":
                    el.set("lnSpcReduction", b)
                bodyPr.insert(0 + len([c for c in bodyPr if etree.QName(c).localname in tags + ["prstTxWarp"]]), el)

        def state(frame=None):
            kids = [c for c in bodyPr if etree.QName(c).localname in tags]
            st = ",".join("%d/%s/%s" % (tags.index(etree.QName(c).localname), c.get("fontScale") or "n", c.get("lnSpcReduction") or "n") for c in kids) or "!"
            v = (frame or slide.shapes[0].text_frame).auto_size
            return st + "|" + ("n" if v is None else str(members.index(v)))
        outs = ["start|" + state()]
        want = outs[0].split("|")[-1]
        for done, op in enumerate(ops):
            val = None if op == "n" else rng.choice([7, "x", 2.5]) if op == "x" else members[int(op)]
            target = tf if rng.randrange(2) else slide.shapes[0].text_frame
            try:
                target.auto_size = val
                outs.append("ok|" + state())
                if op == "x":
                    ctx.fail("domain:auto_size", f"text frame {start} after {ops[:done]}: auto_size = {val!r} is accepted", {"start": start, "ops": ops[:done + 1]})
                else:
                    want = op
            except ValueError:
                outs.append("V|" + state())
                if op != "x":
                    ctx.fail("domain:auto_size", f"text frame {start} after {ops[:done]}: auto_size = {val!r} is refused", {"start": start, "ops": ops[:done + 1]})
            got = outs[-1].split("|")[-1]
            held = state(tf).split("|")[-1]
            if got != want or held != want:
                ctx.fail("readback:auto_size", f"text frame with autofit children {start} (0 noAutofit, 1 normAutofit, 2 spAutoFit): after auto_size assignments {ops[:done + 1]} (n = None, x = no member) "
                         f"a new proxy reads {got}, the held one {held}, the last accepted value is {want}", {"start": start, "ops": ops[:done + 1]})
                ops = ops[:done + 1]
                break
        line = "c09.fit %s %s" % (start, ";".join(ops) or "!")
        lines.append(line); impl.append(";".join(outs)); metas.append({"conv": "autofit", "start": start, "ops": ops})
        ctx.case(key=line); ctx.count("autofit-model-histories")
        if trial % 5 == 0:
            b = io.BytesIO(); prs.save(b)
            v = Presentation(io.BytesIO(b.getvalue())).slides[0].shapes[0].text_frame.auto_size
            if v != slide.shapes[0].text_frame.auto_size:
                ctx.fail("reopen:auto_size", f"text frame {start} after {ops}: auto_size reads {slide.shapes[0].text_frame.auto_size}, after save and re-open {v}", {"start": start, "ops": ops})
    for line, i, m, meta in zip(lines, impl, ctx.driver.run(lines), metas):
        ctx.traces += 1
        if i != m:
            ctx.disagree("autofit", dict(meta, line=line), i, m)


def line_formats(ctx):
    """`LineFormat.width` / `.dash_style` against `Model/LineFmt` (`c09.line`): owners without a:ln, with @w, a:prstDash, a:custDash or
    both dashes; seeded histories (widths incl. None, 0, both bounds and their neighbours; members, None, non-members and
    DASH_STYLE_MIXED) through a held or a new LineFormat; verdict, a:ln as stored, both readings after EVERY assignment"""
    from lxml import etree
    from pptx import Presentation
    from pptx.enum.dml import MSO_LINE_DASH_STYLE as M

    rng = ctx.rng
    A = oplab_ns()
    members = [M.SOLID, M.SQUARE_DOT, M.ROUND_DOT, M.DASH, M.DASH_DOT, M.DASH_DOT_DOT, M.LONG_DASH, M.LONG_DASH_DOT]
    toks = [M.to_xml(m) for m in members]
    scripts = [("12700/3/1", ["w-1", "dx", "wn", "d5", "dn", "w25400"]), ("-", ["dn", "w-5", "dx", "w0", "d0"]), ("n/n/1", ["d7", "w20116800", "w20116801"])]
    lines, impl, metas = [], [], []
    for trial in range(30 if ctx.quick else 500):
        prs = Presentation(); slide = prs.slides.add_slide(prs.slide_layouts[6])
        if trial % 3 == 2:
            slide.shapes.add_connector(1, 0, 0, 9999, 9999)
        else:
            slide.shapes.add_shape(1, 0, 0, 99999, 99999)
        spPr = slide.shapes[0]._element.spPr
        held = slide.shapes[0].line
        if trial < len(scripts):
            start, ops = scripts[trial]
        else:
            start = "-" if rng.randrange(4) == 0 else "%s/%s/%d" % (rng.choice(["n", "1", "12700", "20116800"]), rng.choice(["n"] + [str(k) for k in range(8)]), rng.randrange(2))
            ops = []
            for _ in range(rng.randint(1, 7)):
                if rng.randrange(2):
                    ops.append(rng.choice(["wn", "w0", "w1", "w12700", "w20116800", "w20116801", "w-1", "w%d" % rng.randint(0, 20116800)]))
                else:
                    ops.append(rng.choice(["dn", "dx"] + ["d%d" % k for k in range(8)] * 2))
        for el in spPr.findall("{%s}ln" % A):
            spPr.remove(el)
        if start != "-":
            w, pd, cd = start.split("/")
            ln = spPr.get_or_add_ln()
            if w != "n":
                ln.set("w", w)
            if pd != "n":
                etree.SubElement(ln, "{%s}prstDash" % A).set("val", toks[int(pd)])
            if cd == "1":
                etree.SubElement(etree.SubElement(ln, "{%s}custDash" % A), "{%s}ds" % A).attrib.update({"d": "300000", "sp": "100000"})

        def state(line=None):
            lns = spPr.findall("{%s}ln" % A)
            if not lns:
                st = "-"
            elif len(lns) > 1:
                st = "several"
            else:
                pds = lns[0].findall("{%s}prstDash" % A); cds = lns[0].findall("{%s}custDash" % A)
                st = "%s/%s/%d" % (lns[0].get("w") or "n", "n" if not pds else (str(toks.index(pds[0].get("val"))) if pds[0].get("val") in toks else "odd:%s" % pds[0].get("val")) if len(pds) == 1 else "several", len(cds))
            ln_ = line or slide.shapes[0].line
            d = ln_.dash_style
            return st + "|%d,%s" % (int(ln_.width), "n" if d is None else str(members.index(d)))
        outs = ["start|" + state()]
        want = outs[0].split("|")[-1].split(",")
        for done, op in enumerate(ops):
            if op[0] == "w":
                attr, val = "width", (None if op == "wn" else int(op[1:]))
                dom = val is None or 0 <= val <= 20116800
            else:
                attr = "dash_style"
                val = None if op == "dn" else rng.choice([99, "dash", M.DASH_STYLE_MIXED]) if op == "dx" else members[int(op[1:])]
                dom = op != "dx"
            target = held if rng.randrange(2) else slide.shapes[0].line
            try:
                setattr(target, attr, val)
                outs.append("ok|" + state())
                if not dom:
                    ctx.fail("domain:line", f"line {start} after {ops[:done]}: {attr} = {val!r} is accepted", {"start": start, "ops": ops[:done + 1]})
                elif attr == "width":
                    want[0] = str(val or 0)
                else:
                    want[1] = "n" if val is None else op[1:]
            except ValueError:
                outs.append("V|" + state())
                if outs[-1].split("|")[1] != outs[-2].split("|")[1]:
                    ctx.fail("refused-but-changed:line", f"line (a:ln as @w/prstDash/custDash, - = none) {outs[-2].split('|')[1]}: {attr} = {val!r} is refused with ValueError and leaves "
                             f"{outs[-1].split('|')[1]}", {"start": start, "ops": ops[:done + 1], "value": repr(val)})
                if dom:
                    ctx.fail("domain:line", f"line {start} after {ops[:done]}: {attr} = {val!r} is refused", {"start": start, "ops": ops[:done + 1]})
            got = outs[-1].split("|")[-1].split(",")
            got_held = state(held).split("|")[-1].split(",")
            if got != want or got_held != want:
                ctx.fail("readback:line", f"line (a:ln as @w/prstDash/custDash, - = none) {start}: after {ops[:done + 1]} (w = width, d = dash_style, n = None, x = no member) width, dash_style read {got} "
                         f"through a new LineFormat, {got_held} through the held one; the last accepted values are {want}", {"start": start, "ops": ops[:done + 1]})
                ops = ops[:done + 1]
                break
        line = "c09.line %s %s" % (start, ";".join(ops) or "!")
        lines.append(line); impl.append(";".join(outs)); metas.append({"conv": "line", "start": start, "ops": ops})
        ctx.case(key=line); ctx.count("line-model-histories")
        if trial % 5 == 0:
            b = io.BytesIO(); prs.save(b)
            q = Presentation(io.BytesIO(b.getvalue())).slides[0].shapes[0].line
            here = slide.shapes[0].line
            if (q.width, q.dash_style) != (here.width, here.dash_style):
                ctx.fail("reopen:line", f"line {start} after {ops}: width, dash_style read {(here.width, here.dash_style)}, after save and re-open {(q.width, q.dash_style)}", {"start": start, "ops": ops})
    for line, i, m, meta in zip(lines, impl, ctx.driver.run(lines), metas):
        ctx.traces += 1
        if i != m:
            ctx.disagree("line", dict(meta, line=line), i, m)


def refused_members(ctx):
    """members of an enumeration that have no XML form (MIXED, CUSTOM ...) pass `validate()` and are refused by `to_xml()`: the refusal
    has to come before the setter creates or removes anything - the element tree of the owner is compared before / after"""
    from lxml import etree
    from pptx import Presentation
    from pptx.chart.data import CategoryChartData
    from pptx.enum.chart import XL_CHART_TYPE, XL_LABEL_POSITION, XL_LEGEND_POSITION
    from pptx.enum.dml import MSO_LINE_DASH_STYLE, MSO_PATTERN, MSO_THEME_COLOR
    from pptx.enum.text import MSO_ANCHOR

    prs = Presentation(); sl = prs.slides.add_slide(prs.slide_layouts[6])
    tb = sl.shapes.add_textbox(0, 0, 9999, 9999)
    cd = CategoryChartData(); cd.categories = ["a", "b"]; cd.add_series("s", (1, 2))
    ch = sl.shapes.add_chart(XL_CHART_TYPE.COLUMN_CLUSTERED, 0, 0, 999999, 999999, cd).chart
    ch.has_legend = True
    pl = ch.plots[0]; pl.has_data_labels = True
    sp = sl.shapes.add_shape(1, 0, 0, 99, 99); sp.fill.patterned()
    sp2 = sl.shapes.add_shape(1, 0, 0, 99, 99); sp2.fill.solid()
    sp3 = sl.shapes.add_shape(1, 0, 0, 99, 99)
    table = [("line.dash_style", sp3._element, lambda: sp3.line, "dash_style", MSO_LINE_DASH_STYLE.DASH_STYLE_MIXED),
             ("legend.position", ch._chartSpace, lambda: ch.legend, "position", XL_LEGEND_POSITION.CUSTOM),
             ("text_frame.vertical_anchor", tb._element, lambda: tb.text_frame, "vertical_anchor", MSO_ANCHOR.MIXED),
             ("data_labels.position", ch._chartSpace, lambda: pl.data_labels, "position", XL_LABEL_POSITION.MIXED),
             ("fill.pattern", sp._element, lambda: sp.fill, "pattern", MSO_PATTERN.MIXED),
             ("fore_color.theme_color", sp2._element, lambda: sp2.fill.fore_color, "theme_color", MSO_THEME_COLOR.MIXED)]
    for name, root, owner, attr, member in table:
        obj = owner()
        before = etree.tostring(root)
        ctx.case(key=("refused-member", name)); ctx.count("refused-member-probes")
        try:
            setattr(obj, attr, member)
        except ValueError:
            if etree.tostring(root) != before:
                ctx.fail("refused-but-changed:" + name, f"{name} = {member!r} (a member without an XML form) is refused with ValueError AFTER the XML was changed: "
                         f"the owner's element differs from what it was before the call", {"setter": name, "value": repr(member)})
            continue
        ctx.fail("domain:" + name, f"{name} = {member!r} is accepted although the member has no XML form", {"setter": name, "value": repr(member)})


_ELM_ATTRS = ("_element", "_xPr", "_xFill", "_rPr", "_r", "_p", "_pPr", "_txBody", "_tc", "_tr", "_gridCol", "_ln", "_ser", "_chartSpace", "_gs", "_tbl",
              "_pic", "_sp", "_cxnSp", "_graphicFrame", "_xAx", "_dLbls", "_legend", "_title", "_marker", "_parent", "_bodyPr", "_hlink", "_prstGeom")


def _attached(obj, depth=0):
    """is the element the proxy stands on still part of a part's tree (True), detached (False), or unknown (None)"""
    for a in _ELM_ATTRS:
        e = getattr(obj, a, None)
        if e is None:
            continue
        if hasattr(e, "getparent"):
            top = e
            while top.getparent() is not None:
                top = top.getparent()
            return etree_local(top) in ("sld", "chartSpace", "presentation", "notes", "sldLayout", "sldMaster", "notesMaster")
        if depth < 3 and not isinstance(e, (str, int, float)):
            r = _attached(e, depth + 1)
            if r is not None:
                return r
    return None


def etree_local(e):
    t = e.tag
    return t.rsplit("}", 1)[-1] if isinstance(t, str) else ""


def held_proxies(ctx):
    """every property of the table on objects that are HELD for the whole pass (discovered once) while the same elements are
    also reached through new proxies: an assignment made through the one must be what the other reads, in both directions -
    as long as the held proxy still stands on an element of the document (a structural assignment may have replaced it)"""
    rng = ctx.rng
    for rep in range(1 if ctx.quick else 4):
        prs = build_deck()
        world = oplab.discover(prs)
        props = oplab.prop_table()
        todo = []
        for p in props:
            if p.name == "text" or p.name.startswith("has_") or p.name in ("auto_size", "number_format", "crosses", "crosses_at"):
                continue
            for obj, path in world.objs.get(p.kind, []):
                todo.append((p, obj, path))
        rng.shuffle(todo)
        for p, held, path in todo[: (700 if ctx.quick else 4000)]:
            try:
                live = eval(path, {"prs": prs})  # noqa: S307
            except Exception:  # noqa
                continue
            if live is None or _attached(held) is not True:
                ctx.count("held-proxy-skipped(detached or unknown)")
                continue
            for direction, writer, reader in (("new->held", live, held), ("held->new", held, None)):
                try:
                    v = p.gen(rng)
                    setattr(writer, p.name, v)
                except (TypeError, ValueError):
                    continue
                except Exception:  # noqa
                    break
                try:
                    rd_new = reading(eval(path, {"prs": prs}), p.name)  # noqa: S307
                    rd_held = reading(held, p.name)
                except Exception:  # noqa
                    break
                ctx.case(key=("held-proxy", p.kind, p.name, direction))
                if rd_new != rd_held and _attached(held) is True:
                    ctx.fail(f"stale-held-proxy:{p.kind}.{p.name}", f"{path}.{p.name} = {v!r} assigned through {'a new proxy' if direction == 'new->held' else 'the proxy held since discovery'}: "
                             f"a new proxy reads {rd_new[1]!r}, the held one {rd_held[1]!r}", {"object": path, "property": p.name, "direction": direction})
                    break
            ctx.count("held-proxy-checks")


def oplab_ns():
    return "http://schemas.openxmlformats.org/drawingml/2006/main"


def stores(ctx):
    """assignment histories on the attribute stores behind Font (a:rPr), TextFrame (a:bodyPr) and _Cell (a:tcPr)"""
    from pptx import Presentation
    from pptx.util import Emu

    rng = ctx.rng
    prs = Presentation()
    slide = prs.slides.add_slide(prs.slide_layouts[6])
    lines, impl, metas = [], [], []
    n = 80 if ctx.quick else 800
    for it in range(n):
        kind = rng.choice(["font", "text_frame", "cell"])
        if kind == "font":
            tb = slide.shapes.add_textbox(0, 0, 100, 100); tb.text_frame.text = "x"
            obj = tb.text_frame.paragraphs[0].runs[0].font
            attrs = [("bold", None, lambda: rng.choice([0, 1, None])), ("italic", None, lambda: rng.choice([0, 1, None])),
                     ("size", None, lambda: rng.choice([None, 127 * rng.randint(100, 400000)]))]
            conv = {"bold": lambda v: None if v is None else bool(v), "italic": lambda v: None if v is None else bool(v), "size": lambda v: None if v is None else Emu(v)}
        elif kind == "text_frame":
            tb = slide.shapes.add_textbox(0, 0, 100, 100)
            obj = tb.text_frame
            attrs = [("margin_left", 91440, lambda: rng.choice([91440, 0, rng.randint(0, 10**6)])), ("margin_top", 45720, lambda: rng.choice([45720, 0, rng.randint(0, 10**6)])),
                     ("margin_right", 91440, lambda: rng.choice([91440, 5])), ("margin_bottom", 45720, lambda: rng.choice([45720, 7])),
                     ("word_wrap", None, lambda: rng.choice([0, 1, None]))]
            conv = {"word_wrap": lambda v: None if v is None else bool(v)}
        else:
            t = slide.shapes.add_table(1, 1, 0, 0, 100, 100).table
            obj = t.cell(0, 0)
            attrs = [("margin_left", 91440, lambda: rng.choice([91440, 0, None, rng.randint(0, 10**6)])), ("margin_top", 45720, lambda: rng.choice([45720, None, 3])),
                     ("margin_right", 91440, lambda: rng.choice([91440, None, 5])), ("margin_bottom", 45720, lambda: rng.choice([45720, None, 7]))]
            conv = {}
        o = lambda v: "n" if v is None else str(int(v))  # noqa: E731
        init = ";".join(f"{i}:{o(getattr(obj, nm))}" for i, (nm, d, g) in enumerate(attrs))
        ops = []
        for _ in range(rng.randint(1, 12)):
            i = rng.randrange(len(attrs))
            name, dflt, gen = attrs[i]
            v = gen()
            ops.append((i, v))
            setattr(obj, name, conv.get(name, lambda x: x)(v))
        reads = []
        for name, dflt, gen in attrs:
            r = getattr(obj, name)
            reads.append("n" if r is None else str(int(r)))
        lines.append("c09.run %s %s %s %s" % (";".join(f"{i}:{o(d)}" for i, (nm, d, g) in enumerate(attrs)), init, ";".join(f"{i}:{o(v)}" for i, v in ops),
                                             ",".join(str(i) for i in range(len(attrs)))))
        impl.append(",".join(reads))
        metas.append({"store": kind, "ops": [(attrs[i][0], v) for i, v in ops]})
        ctx.case(key=lines[-1])
        if len(slide.shapes) > 60:
            slide = prs.slides.add_slide(prs.slide_layouts[6])
    res = ctx.driver.run(lines)
    for line, i, m, meta in zip(lines, impl, res, metas):
        ctx.traces += 1
        if i != m:
            ctx.disagree("attribute-store", meta, i, m)
    ctx.sample({"line": lines[-1], "impl": impl[-1]})


def powerpoint_states(prs, rng):
    """put some objects into states PowerPoint writes and python-pptx itself does not: -> number of injections"""
    n = 0
    for slide in prs.slides:
        for sh in slide.shapes:
            if not getattr(sh, "has_chart", False):
                continue
            ch = sh.chart
            if ch.has_legend and rng.random() < 0.6:
                # a legend dragged by hand: manual layout in EDGE mode
                ch.legend.horz_offset = 0.1
                ml = ch.legend._element.xpath("c:layout/c:manualLayout")
                if ml:
                    for e in ml[0]:
                        if e.tag.endswith("}xMode"):
                            e.set("val", "edge")
                    n += 1
    # a picture dropped into a CONTENT placeholder: a p:pic whose p:ph carries no picture type (and no a:xfrm of its own:
    # position and size come from the layout)
    try:
        sl = prs.slides.add_slide(prs.slide_layouts[8])
        ph = [p_ for p_ in sl.placeholders if "PICTURE" in str(p_.placeholder_format.type)][0]
        pic = ph.insert_picture(oplab.media()["images"][0])
        phel = pic._element.xpath("./p:nvPicPr/p:nvPr/p:ph")[0]
        if "type" in phel.attrib:
            del phel.attrib["type"]
        for x in pic._element.xpath("./p:spPr/a:xfrm"):
            x.getparent().remove(x)
        n += 1
    except Exception:  # noqa
        pass
    return n


def foreign_placeholder_geometry(ctx):
    """placeholders as other producers leave them - a picture dropped into a CONTENT placeholder (p:pic whose p:ph has no
    picture type), a picture placeholder with its type - without an a:xfrm of their own: each reads the layout's position
    and size; assigning ONE dimension changes that reading and leaves the other three at the inherited values"""
    from pptx import Presentation

    for strip_type in (False, True):
        for dim in ("left", "top", "width", "height"):
            prs = Presentation()
            sl = prs.slides.add_slide(prs.slide_layouts[8])
            ph = [p_ for p_ in sl.placeholders if "PICTURE" in str(p_.placeholder_format.type)][0]
            lay = [p_ for p_ in prs.slide_layouts[8].placeholders if p_.placeholder_format.idx == ph.placeholder_format.idx][0]
            want = {d: getattr(lay, d) for d in ("left", "top", "width", "height")}
            pic = ph.insert_picture(oplab.media()["images"][0])
            phel = pic._element.xpath("./p:nvPicPr/p:nvPr/p:ph")[0]
            if strip_type and "type" in phel.attrib:
                del phel.attrib["type"]
            for x in pic._element.xpath("./p:spPr/a:xfrm"):
                x.getparent().remove(x)
            idx = phel.get("idx")
            live = [s_ for s_ in sl.shapes if s_._element is pic._element][0]
            case = {"object": "picture in a placeholder" + (" whose p:ph has no type" if strip_type else ""), "property": dim}
            ctx.case(key=("foreign-placeholder", strip_type, dim))
            got = {d: getattr(live, d) for d in want}
            if got != want:
                ctx.fail("placeholder-geometry:not-inherited", f"{case['object']} (idx {idx}) without a:xfrm reads {got}, its layout placeholder {want}", case)
                continue
            v = want[dim] + 12345
            setattr(live, dim, v)
            fresh = [s_ for s_ in sl.shapes if s_._element is pic._element][0]
            after = {d: getattr(fresh, d) for d in want}
            exp = dict(want); exp[dim] = v
            if after != exp:
                ctx.fail("independence:placeholder-geometry-coupled", f"{case['object']}: {dim} = {v} gives {after}, expected {exp} (the other dimensions keep the inherited values)", case)


def stale_handles(ctx):
    """two long-lived proxies for the same fill (colour): what is done through one must be what a newly obtained proxy
    reads, whatever was done through the other in between (a proxy that remembers which kind of fill it last saw)"""
    import itertools

    from pptx.dml.color import RGBColor
    from pptx.enum.dml import MSO_COLOR_TYPE, MSO_FILL, MSO_THEME_COLOR

    KIND = {"solid": MSO_FILL.SOLID, "background": MSO_FILL.BACKGROUND, "gradient": MSO_FILL.GRADIENT, "patterned": MSO_FILL.PATTERNED}
    prs = build_deck()
    s1, s2 = prs.slides[1], prs.slides[2]
    shape = s1.shapes[0]
    tbl = [sh for sh in s1.shapes if getattr(sh, "has_table", False)][0].table
    chart = [sh for sh in s2.shapes if getattr(sh, "has_chart", False)][0].chart
    fills = [
        ("autoshape.fill", lambda: shape.fill),
        ("autoshape.line.fill", lambda: shape.line.fill),
        ("cell.fill", lambda: tbl.cell(1, 1).fill),
        ("run.font.fill", lambda: shape.text_frame.paragraphs[0].runs[0].font.fill),
        ("slide.background.fill", lambda: s1.background.fill),
        ("series.format.fill", lambda: chart.plots[0].series[0].format.fill),
        ("chart-title font fill", lambda: chart.chart_title.text_frame.paragraphs[0].font.fill if chart.has_title else None),
    ]
    n = 0
    for name, get in fills:
        for k1, k2, k3 in itertools.product(KIND, KIND, KIND):
            try:
                h1 = get()
                if h1 is None:
                    break
                getattr(h1, k1)()
                h2 = get()
                getattr(h2, k2)()
                getattr(h1, k3)()
                rgb = RGBColor(0x10 + n % 200, 0x20, 0x30)
                if k3 in ("solid", "patterned"):
                    h1.fore_color.rgb = rgb
                fresh = get()
                got = fresh.type
                col = fresh.fore_color.rgb if k3 in ("solid", "patterned") else None
            except Exception as e:  # noqa
                ctx.fail("stale-handle:" + name + ":raised", f"{name}: {k1}() through proxy 1, {k2}() through proxy 2, {k3}() through proxy 1 raised {type(e).__name__}: {str(e)[:120]}",
                         {"object": name, "history": [k1, k2, k3]})
                continue
            n += 1
            ctx.case(key=("stale", name, k1, k2, k3))
            if got != KIND[k3] or (col is not None and col != rgb):
                ctx.fail("stale-handle:" + name, f"{name}: {k1}() through proxy 1, {k2}() through a second proxy, then {k3}()" + (f" and fore_color.rgb = {rgb}" if col is not None else "")
                         + f" through proxy 1: a newly obtained proxy reads type {got} colour {col}", {"object": name, "history": [k1, k2, k3]})
    colors = [
        ("run.font.color", lambda: shape.text_frame.paragraphs[0].runs[0].font.color),
        ("autoshape.line.color", lambda: shape.line.color),
        ("autoshape.fill.fore_color", lambda: (shape.fill.solid(), shape.fill.fore_color)[1]),
    ]
    CK = ["rgb", "theme"]
    for name, get in colors:
        for k1, k2, k3 in itertools.product(CK, CK, CK):
            try:
                def put(h, k, i):
                    if k == "rgb":
                        h.rgb = RGBColor(i, 0x44, 0x55)
                    else:
                        h.theme_color = [MSO_THEME_COLOR.ACCENT_1, MSO_THEME_COLOR.ACCENT_2, MSO_THEME_COLOR.TEXT_1][i % 3]
                h1 = get(); put(h1, k1, 1)
                h2 = get(); put(h2, k2, 2)
                put(h1, k3, 3)
                fresh = get() if name != "autoshape.fill.fore_color" else shape.fill.fore_color
                got = (fresh.type, fresh.rgb if k3 == "rgb" else fresh.theme_color)
                want = (MSO_COLOR_TYPE.RGB, RGBColor(3, 0x44, 0x55)) if k3 == "rgb" else (MSO_COLOR_TYPE.SCHEME, MSO_THEME_COLOR.ACCENT_1)
            except Exception as e:  # noqa
                ctx.fail("stale-handle:" + name + ":raised", f"{name}: {k1}, {k2} (second proxy), {k3} raised {type(e).__name__}: {str(e)[:120]}", {"object": name, "history": [k1, k2, k3]})
                continue
            ctx.case(key=("stale", name, k1, k2, k3))
            if got != want:
                ctx.fail("stale-handle:" + name, f"{name}: set {k1} through proxy 1, {k2} through a second proxy, {k3} through proxy 1: a newly obtained proxy reads {got}, expected {want}",
                         {"object": name, "history": [k1, k2, k3]})
    ctx.count("stale-handle-histories", n)


def coupled_sums(ctx):
    """row heights / column widths and the frame size derived from them: every ordered pair of edge values on two rows
    (columns) of a fresh table; an assignment that is refused - because the value or the TOTAL it produces cannot be
    written - must leave every reading as it was; an accepted one must leave the frame equal to the sum"""
    from pptx import Presentation

    vals = [0, 1, -1, 27273042316900, 27273042316901, -27273042316900, 13636521158450, 2**31, -2**31]
    prs = Presentation()
    slide = prs.slides.add_slide(prs.slide_layouts[6])
    for axis in ("rows", "columns"):
        attr = "height" if axis == "rows" else "width"
        for v1 in vals:
            for v2 in vals:
                gf = slide.shapes.add_table(2, 2, 0, 0, 2000, 2000)
                items = list(getattr(gf.table, axis))
                hist = []
                for it, v in ((items[0], v1), (items[1], v2), (items[0], 0)):
                    before = ([getattr(x, attr) for x in items], getattr(gf, attr))
                    try:
                        setattr(it, attr, v)
                        ok = True
                    except (TypeError, ValueError):
                        ok = False
                    hist.append((v, ok))
                    after = ([getattr(x, attr) for x in items], getattr(gf, attr))
                    ctx.case(key=("coupled", axis, v1, v2, len(hist)))
                    if not ok and after != before:
                        ctx.fail(f"{axis[:-1]}.{attr}:rejected-but-changed", f"table {axis} {attr}: history {hist}: the last assignment was refused but the readings "
                                 f"changed from {before} to {after}", {"axis": axis, "history": str(hist)})
                        break
                    if ok and after[1] != sum(after[0]):
                        ctx.fail(f"{axis[:-1]}.{attr}:frame-not-sum", f"table {axis} {attr}: history {hist}: frame {attr} {after[1]} != sum {sum(after[0])}", {"axis": axis, "history": str(hist)})
                        break
                gf._element.getparent().remove(gf._element)
    ctx.count("coupled-sum-histories", 2 * len(vals) ** 2)


def correspond(ctx):
    from pptx import Presentation

    conversions(ctx)
    coupled_sums(ctx)
    stores(ctx)
    colours(ctx)
    fills(ctx)
    shared_relationships(ctx)
    point_order(ctx)
    adjustment_proxies(ctx)
    spacings(ctx)
    autofits(ctx)
    line_formats(ctx)
    refused_members(ctx)
    held_proxies(ctx)
    rng = ctx.rng
    reps = 6 if ctx.quick else 20
    for r in range(reps):
        prs = build_deck()
        label = f"generated#{r}"
        if r % 3 == 1:
            ctx.count("powerpoint-state-injections", powerpoint_states(prs, rng))
            label += "(PowerPoint-style states)"
        elif r % 3 == 2:
            # optional elements / attributes removed at random (the part stays schema-valid): setters meet absent elements
            from harness.props.c12 import thin
            b = io.BytesIO(); prs.save(b)
            td, n = thin(b.getvalue(), rng)
            prs = Presentation(io.BytesIO(td))
            label += f"(thinned, {n} removed)"
        rec = exercise(ctx, prs, label, rng, 800 if ctx.quick else 1500)
        reopen_check(ctx, prs, label, rec)
    for r in range(1 if ctx.quick else 6):
        # optional elements ADDED that other producers write (extension lists, children taken from PowerPoint-authored parts)
        from harness.props.c12 import enrich
        b = io.BytesIO(); build_deck().save(b)
        ed, n = enrich(b.getvalue(), rng, per_part=40)
        prs = Presentation(io.BytesIO(ed))
        label = f"generated#e{r}(enriched, {n} added)"
        rec = exercise(ctx, prs, label, rng, 500 if ctx.quick else 1500)
        reopen_check(ctx, prs, label, rec)
    prs = build_deck()
    rec = exercise(ctx, prs, "generated-deck(None first)", rng, 10**6, none_first=True)
    reopen_check(ctx, prs, "generated-deck(None first)", rec)
    prs = build_deck()
    rec = exercise(ctx, prs, "generated-deck(every generator value)", rng, 10**6, sweep=True)
    reopen_check(ctx, prs, "generated-deck(every generator value)", rec)
    from harness.props.c12 import bare
    b = io.BytesIO(); build_deck().save(b)
    bd, n = bare(b.getvalue())
    # objects are discovered on ANOTHER instance of the same file: discovery walks fills and text frames, which creates
    # the very containers this pass wants absent
    world = oplab.discover(Presentation(io.BytesIO(bd)))
    prs = Presentation(io.BytesIO(bd))
    label = f"generated-deck(bare: {n} empty containers removed; 0 first)"
    rec = exercise(ctx, prs, label, rng, 10**6, zero_first=True, world=world)
    reopen_check(ctx, prs, label, rec)
    stale_handles(ctx)
    foreign_placeholder_geometry(ctx)
    decks = common.corpus_decks()
    if ctx.quick:
        decks = rng.sample(decks, 14)
    for d in decks:
        try:
            prs = Presentation(str(d))
        except Exception:  # noqa
            continue
        rec = exercise(ctx, prs, d.name, rng, 120 if ctx.quick else 500)
        reopen_check(ctx, prs, d.name, rec)


def search(ctx, hints):
    return


def replay(ctx, data):
    for f in data.get("failing_inputs_on_real_code", []):
        print(f["what"][:500])
    for d in data.get("correspondence_disagreements", []):
        print("model/impl disagreement:", str(d)[:500])
    return 1
