"""C12 — inspecting a presentation does not change it."""
from __future__ import annotations

import hashlib
import io
import posixpath
import random
import zipfile

from lxml import etree

from harness import common, leangen as lg, readlab as R, schemagen

ID = "C12"
LEAN_MODULES = ["PptxModel.Props.C12", "PptxModel.GenProps.C12"]
RULE = (
    "every public property (plain and lazy) of every pptx object reachable from a Presentation by reflection - slides, "
    "layouts, masters, notes, shapes of every kind, placeholders, text frames, paragraphs, runs, fonts, fills, lines, "
    "colours, tables, cells, charts, plots, series, points, axes, legends, data labels, parts, relationships - plus "
    "iteration and len() of every collection, over a generated deck holding every kind of object, over the corpus decks, "
    "over THINNED variants of both (optional elements and attributes removed at random while lxml still accepts the part, "
    "so that getters meet absent elements) and over variants whose slide parts are renumbered (gap, permutation, high "
    "number), in seeded order.  (a) per access: the owning part and the package's part list before / after; an access that "
    "changes anything is classified by the canonical form (empty attribute-less containers erased) computed in Python and "
    "by the Lean model on the same two trees; (b) end to end: a deck traversed completely (documented creators excepted), "
    "with repetitions and intermediate saves, then saved, against the same deck saved straight after opening: same parts "
    "(matched by relationship path), XML equal up to the canonical form, other parts byte-identical.  "
    "Non-trivial = distinct (accessor, effect) and distinct (deck, part) pairs."
    "  (c) statically: every public getter of /repo's source whose body calls something that creates, inserts or removes XML must "
    "have been seen creating under (a), or be a documented creator, a listed finding or exempt for a stated reason."
)
ASSUMPTIONS = [
    "the per-accessor effect table is observed on the objects of the generated deck and of the corpus: a getter that "
    "mutates only in a document shape present in neither is invisible (what is proved is the lift from per-accessor "
    "effects to arbitrary read histories)",
    "container sets (what counts as an empty formatting container) and the list of documented creators are fixed by hand "
    "in harness/readlab.py from the property text and the docstrings",
    "parts of the two saved files are matched by their relationship path from the package root (first access to "
    "Presentation.slides renames slide parts: C02)",
]
TRUSTED = ["harness/readlab.py (reflection, canonical form on lxml trees)", "the zip / relationship reader in this module"]

GEN = common.LEAN / "PptxModel" / "Gen" / "C12.lean"
GENP = common.LEAN / "PptxModel" / "GenProps" / "C12.lean"


def known_mutators():
    return {e["key"][len("mutates:"):] for e in common.load_known() if e.get("property") == ID and e.get("kind") == "finding" and e["key"].startswith("mutates:")}


def container_ids():
    T = schemagen.tables()
    return [T.tag_id.get(t, 0) for t in sorted(R.ROOTS)], [T.tag_id.get(t, 0) for t in sorted(R.INNER)]


def decks_for(quick, rng):
    decks = common.corpus_decks()
    if quick:
        decks = sorted(rng.sample(decks, 10), key=str)
    return decks


# ------------------------------------------------------------------------------------------------ generated inputs
def thin(data, rng, per_part=25, only=None, factor=None):
    """a deck in a document shape the corpus does not have: optional elements and attributes are removed at random as
    long as the part stays schema-valid (lxml), so that getters meet ABSENT elements and attributes"""
    from pptx import Presentation
    from harness import xmllab as X

    prs = Presentation(io.BytesIO(data))
    removed = 0
    for pn, el in X.xml_parts(prs.part.package):
        if X.schema_for(el) is None:
            continue
        if only is not None and not pn.startswith(only):
            continue
        ok0, _ = X.validate(el)
        if not ok0:
            continue
        nodes = [e for e in el.iter() if isinstance(e.tag, str) and e is not el]
        if not nodes:
            continue
        is_chart = pn.startswith("/ppt/charts/")
        for _ in range(factor * len(nodes) if factor else (max(per_part, len(nodes) // 2) if is_chart else per_part)):
            e = rng.choice(nodes)
            parent = e.getparent()
            if parent is None:
                continue
            if rng.random() < 0.5 and e.attrib:
                a = rng.choice(list(e.attrib))
                old = e.attrib.pop(a)
                if X.validate(el)[0]:
                    removed += 1
                else:
                    e.set(a, old)
            elif len(e) == 0 or rng.random() < 0.3:
                idx = parent.index(e)
                tail = e.tail
                parent.remove(e)
                if X.validate(el)[0]:
                    removed += 1
                    nodes = [x for x in nodes if x is not e and e not in list(x.iterancestors())]
                    if not nodes:
                        break
                else:
                    e.tail = tail
                    parent.insert(idx, e)
    out = io.BytesIO()
    prs.save(out)
    return out.getvalue(), removed


def bare(data):
    """every empty, attribute-less element removed (systematically, last to first) where the part stays schema-valid: the
    document other producers write when they omit every optional empty container (a:tcPr, a:bodyPr children, a:pPr ...)"""
    from pptx import Presentation
    from harness import xmllab as X

    prs = Presentation(io.BytesIO(data))
    removed = 0
    for pn, el in X.xml_parts(prs.part.package):
        if X.schema_for(el) is None or not X.validate(el)[0]:
            continue
        for e in reversed([e for e in el.iter() if isinstance(e.tag, str) and e is not el]):
            if len(e) or e.attrib or (e.text or "").strip():
                continue
            parent = e.getparent()
            idx = parent.index(e); tail = e.tail
            parent.remove(e)
            if X.validate(el)[0]:
                removed += 1
            else:
                e.tail = tail
                parent.insert(idx, e)
    out = io.BytesIO()
    prs.save(out)
    return out.getvalue(), removed


_DONORS = None
R_NS_ = "http://schemas.openxmlformats.org/officeDocument/2006/relationships"
_STATIC_DONORS = [
    # what current PowerPoint versions write and python-pptx never does
    ("{%(p)s}sld", '<p:extLst xmlns:p="%(p)s"><p:ext uri="{BB962C8B-B14F-4D97-AF65-F5344CB8AC3E}"><p14:creationId '
                   'xmlns:p14="http://schemas.microsoft.com/office/powerpoint/2010/main" val="1234567"/></p:ext></p:extLst>'),
    ("{%(p)s}sld", '<p:timing xmlns:p="%(p)s"><p:tnLst><p:par><p:cTn id="1" dur="indefinite" restart="never" nodeType="tmRoot"/>'
                   '</p:par></p:tnLst></p:timing>'),
    ("{%(p)s}sld", '<p:transition xmlns:p="%(p)s" spd="slow"><p:fade/></p:transition>'),
    ("{%(p)s}spTree", '<p:extLst xmlns:p="%(p)s"><p:ext uri="{11111111-2222-3333-4444-555555555555}"><x:y xmlns:x="urn:x-foreign"/></p:ext></p:extLst>'),
    ("{%(p)s}grpSp", '<p:extLst xmlns:p="%(p)s"><p:ext uri="{11111111-2222-3333-4444-555555555555}"><x:y xmlns:x="urn:x-foreign"/></p:ext></p:extLst>'),
    ("{%(p)s}cSld", '<p:extLst xmlns:p="%(p)s"><p:ext uri="{11111111-2222-3333-4444-555555555555}"><x:y xmlns:x="urn:x-foreign"/></p:ext></p:extLst>'),
    ("{%(p)s}nvPr", '<p:extLst xmlns:p="%(p)s"><p:ext uri="{11111111-2222-3333-4444-555555555555}"><x:y xmlns:x="urn:x-foreign"/></p:ext></p:extLst>'),
    ("{%(p)s}sp", '<p:extLst xmlns:p="%(p)s"><p:ext uri="{11111111-2222-3333-4444-555555555555}"><x:y xmlns:x="urn:x-foreign"/></p:ext></p:extLst>'),
    ("{%(p)s}pic", '<p:extLst xmlns:p="%(p)s"><p:ext uri="{11111111-2222-3333-4444-555555555555}"><x:y xmlns:x="urn:x-foreign"/></p:ext></p:extLst>'),
    ("{%(p)s}graphicFrame", '<p:extLst xmlns:p="%(p)s"><p:ext uri="{11111111-2222-3333-4444-555555555555}"><x:y xmlns:x="urn:x-foreign"/></p:ext></p:extLst>'),
    ("{%(p)s}presentation", '<p:extLst xmlns:p="%(p)s"><p:ext uri="{11111111-2222-3333-4444-555555555555}"><x:y xmlns:x="urn:x-foreign"/></p:ext></p:extLst>'),
    ("{%(a)s}tbl", None),
    ("{%(a)s}tcPr", '<a:extLst xmlns:a="%(a)s"><a:ext uri="{11111111-2222-3333-4444-555555555555}"><x:y xmlns:x="urn:x-foreign"/></a:ext></a:extLst>'),
    ("{%(a)s}rPr", '<a:extLst xmlns:a="%(a)s"><a:ext uri="{11111111-2222-3333-4444-555555555555}"><x:y xmlns:x="urn:x-foreign"/></a:ext></a:extLst>'),
    ("{%(a)s}pPr", '<a:extLst xmlns:a="%(a)s"><a:ext uri="{11111111-2222-3333-4444-555555555555}"><x:y xmlns:x="urn:x-foreign"/></a:ext></a:extLst>'),
    ("{%(a)s}bodyPr", '<a:extLst xmlns:a="%(a)s"><a:ext uri="{11111111-2222-3333-4444-555555555555}"><x:y xmlns:x="urn:x-foreign"/></a:ext></a:extLst>'),
    ("{%(a)s}spPr", None),
    ("{%(p)s}spPr", '<a:extLst xmlns:a="%(a)s"><a:ext uri="{11111111-2222-3333-4444-555555555555}"><x:y xmlns:x="urn:x-foreign"/></a:ext></a:extLst>'),
    ("{%(a)s}ln", '<a:extLst xmlns:a="%(a)s"><a:ext uri="{11111111-2222-3333-4444-555555555555}"><x:y xmlns:x="urn:x-foreign"/></a:ext></a:extLst>'),
    ("{%(a)s}blip", '<a:extLst xmlns:a="%(a)s"><a:ext uri="{28A0092B-C50C-407E-A947-70E740481C1C}"><x:y xmlns:x="urn:x-foreign"/></a:ext></a:extLst>'),
    ("{%(c)s}chartSpace", '<c:extLst xmlns:c="%(c)s"><c:ext uri="{11111111-2222-3333-4444-555555555555}"><x:y xmlns:x="urn:x-foreign"/></c:ext></c:extLst>'),
    ("{%(c)s}chart", '<c:extLst xmlns:c="%(c)s"><c:ext uri="{11111111-2222-3333-4444-555555555555}"><x:y xmlns:x="urn:x-foreign"/></c:ext></c:extLst>'),
    ("{%(c)s}plotArea", '<c:extLst xmlns:c="%(c)s"><c:ext uri="{11111111-2222-3333-4444-555555555555}"><x:y xmlns:x="urn:x-foreign"/></c:ext></c:extLst>'),
    ("{%(c)s}ser", '<c:extLst xmlns:c="%(c)s"><c:ext uri="{11111111-2222-3333-4444-555555555555}"><x:y xmlns:x="urn:x-foreign"/></c:ext></c:extLst>'),
    ("{%(c)s}valAx", '<c:extLst xmlns:c="%(c)s"><c:ext uri="{11111111-2222-3333-4444-555555555555}"><x:y xmlns:x="urn:x-foreign"/></c:ext></c:extLst>'),
    ("{%(c)s}catAx", '<c:extLst xmlns:c="%(c)s"><c:ext uri="{11111111-2222-3333-4444-555555555555}"><x:y xmlns:x="urn:x-foreign"/></c:ext></c:extLst>'),
    ("{%(c)s}dLbls", '<c:extLst xmlns:c="%(c)s"><c:ext uri="{11111111-2222-3333-4444-555555555555}"><x:y xmlns:x="urn:x-foreign"/></c:ext></c:extLst>'),
    ("{%(c)s}legend", '<c:extLst xmlns:c="%(c)s"><c:ext uri="{11111111-2222-3333-4444-555555555555}"><x:y xmlns:x="urn:x-foreign"/></c:ext></c:extLst>'),
]


def donors():
    """{parent tag: {child tag: [serialised child]}} harvested from the PowerPoint-authored parts of the corpus (children
    that carry no relationship ids and no object ids), plus a few elements current producers write"""
    global _DONORS
    if _DONORS is not None:
        return _DONORS
    from pptx import Presentation
    from harness import common, xmllab as X

    ns = {"p": "http://schemas.openxmlformats.org/presentationml/2006/main", "a": "http://schemas.openxmlformats.org/drawingml/2006/main",
          "c": "http://schemas.openxmlformats.org/drawingml/2006/chart"}
    pool = {}
    for par, xml in _STATIC_DONORS:
        if xml is None:
            continue
        el = etree.fromstring(xml % ns)
        pool.setdefault(par % ns, {}).setdefault(el.tag, []).append(etree.tostring(el))
    # (axes refer to each other by c:axId / c:crossAx: a donated axis would make the chart referentially inconsistent,
    # which no schema check sees - an enriched deck must stay a deck some producer could have written)
    shape_tags = {"sp", "pic", "grpSp", "graphicFrame", "cxnSp", "contentPart", "ser", "sldId", "sldMasterId", "sldLayoutId", "notesMasterId",
                  "valAx", "catAx", "dateAx", "serAx", "axId", "crossAx"}
    for d in common.corpus_decks():
        try:
            prs = Presentation(str(d))
        except Exception:  # noqa
            continue
        for pn, root in X.xml_parts(prs.part.package):
            if X.schema_for(root) is None:
                continue
            for e in root.iter():
                if not isinstance(e.tag, str) or e is root:
                    continue
                if etree.QName(e).localname in shape_tags:
                    continue
                bad = False
                for x in e.iter():
                    if not isinstance(x.tag, str):
                        continue
                    if any(k == "id" or k.startswith("{" + R_NS_) for k in x.attrib) or etree.QName(x).localname in ("axId", "crossAx"):
                        bad = True
                        break
                if bad or len(etree.tostring(e)) > 4000:
                    continue
                lst = pool.setdefault(e.getparent().tag, {}).setdefault(e.tag, [])
                if len(lst) < 6:
                    ser = etree.tostring(e)
                    if ser not in lst:
                        lst.append(ser)
    _DONORS = pool
    return pool


def enrich(data, rng, per_part=12):
    """the dual of `thin`: a deck to whose elements optional children were ADDED that the schema permits and the deck did
    not have (taken from PowerPoint-authored parts, or trailing extension lists, timing and transition elements current
    producers write), each at a position lxml accepts; every part stays schema-valid.  -> (bytes, number added)"""
    from pptx import Presentation
    from pptx.oxml import parse_xml
    from harness import xmllab as X

    pool = donors()
    prs = Presentation(io.BytesIO(data))
    added = 0
    for pn, el in X.xml_parts(prs.part.package):
        if X.schema_for(el) is None or not X.validate(el)[0]:
            continue
        nodes = [e for e in el.iter() if isinstance(e.tag, str) and e.tag in pool]
        if not nodes:
            continue
        rng.shuffle(nodes)
        # the part's root element and its first levels always take part: that is where extension lists, timing and
        # transition elements live
        top = [e for e in nodes if sum(1 for _ in e.iterancestors()) <= 2]
        order = top + [e for e in nodes if not any(e is t for t in top)]
        def try_add(e, t):
            child = parse_xml(rng.choice(pool[e.tag][t]))
            for pos in range(len(e), -1, -1):
                e.insert(pos, child)
                if X.validate(el)[0]:
                    return 1
                e.remove(child)
            return 0

        for e in top:
            have = {c.tag for c in e if isinstance(c.tag, str)}
            for t in sorted(pool[e.tag]):
                if t not in have and rng.random() < 0.7:
                    added += try_add(e, t)
        for e in order[len(top):][:per_part]:
            have = {c.tag for c in e if isinstance(c.tag, str)}
            cands = [t for t in pool[e.tag] if t not in have]
            if not cands:
                continue
            # trailing extension lists first: that is where hand-written `append` calls go wrong
            ext = [t for t in cands if t.endswith("}extLst")]
            t = rng.choice(ext) if ext and rng.random() < 0.5 else rng.choice(cands)
            added += try_add(e, t)
    out = io.BytesIO()
    prs.save(out)
    return out.getvalue(), added


def renumber_slides(data, rng, kind=None):
    """the same deck with its slide parts under other numbers (a gap, a permutation, a number above the count): the first
    access to Presentation.slides renames them"""
    import re
    z = zipfile.ZipFile(io.BytesIO(data))
    nums = sorted(int(m.group(1)) for n in z.namelist() for m in [re.fullmatch(r"ppt/slides/slide(\d+)\.xml", n)] if m)
    if len(nums) < 2:
        return None
    kind = kind or rng.choice(["gap", "permute", "high", "last-is-count"])
    if kind == "last-is-count" and len(nums) >= 3:
        # out of sequence, yet the LAST slide carries the number that equals the count (1, 4, 3): a test of the last name alone sees nothing
        pool = [k for k in range(1, len(nums) + 4) if k != len(nums)]
        while True:
            new = rng.sample(pool, len(nums) - 1) + [len(nums)]
            if new != nums:
                break
    elif kind == "gap" or kind == "last-is-count":
        new = [n if i == 0 else n + 1 for i, n in enumerate(nums)]          # 1,3,4,...
    elif kind == "permute":
        new = nums[1:] + nums[:1]
    else:
        new = nums[:-1] + [nums[-1] + 5]
    mp = dict(zip(nums, new))
    out = io.BytesIO()
    with zipfile.ZipFile(out, "w", zipfile.ZIP_DEFLATED) as zo:
        for n in z.namelist():
            b = z.read(n)
            m = re.fullmatch(r"ppt/slides/(_rels/)?slide(\d+)\.xml(\.rels)?", n)
            name = n
            if m:
                name = f"ppt/slides/{m.group(1) or ''}slide@{mp[int(m.group(2))]}@.xml{m.group(3) or ''}"
            if n.endswith(".rels") or n == "[Content_Types].xml":
                t = b.decode("utf-8")
                t = re.sub(r"slides/slide(\d+)\.xml", lambda mm: f"slides/slide@{mp[int(mm.group(1))]}@.xml", t)
                b = t.replace("@", "").encode("utf-8")
            zo.writestr(name.replace("@", ""), b)
    return out.getvalue()


def irregular_variants(rng):
    """decks in states the API does not produce but the package format allows, built from a generated deck:
    (label, bytes).  A slide part kept alive only by a slide-jump from another slide (neither in the slide-id list nor
    related from the presentation part); a notes master related from its notes slide only."""
    import re
    from pptx import Presentation
    from pptx.enum.shapes import MSO_SHAPE
    from harness.props.c09 import build_deck

    out = []
    # -- orphan slide reachable through a click action only
    prs = build_deck()
    for _ in range(2):
        prs.slides.add_slide(prs.slide_layouts[6]).shapes.add_textbox(0, 0, 9, 9).text_frame.text = "x"
    sl = list(prs.slides)
    victim = rng.randrange(1, len(sl) - 1)            # its number lies inside 1..N of the remaining slides
    src = sl[0]
    src.shapes.add_shape(MSO_SHAPE.RECTANGLE, 0, 0, 9, 9).click_action.target_slide = sl[victim]
    lst = prs.part._element.sldIdLst
    sld = lst[victim]
    rid = sld.rId
    lst.remove(sld)
    prs.part.drop_rel(rid) if hasattr(prs.part, "drop_rel") else None
    if rid in prs.part.rels:
        prs.part.rels.pop(rid)
    b = io.BytesIO(); prs.save(b)
    out.append(("generated-deck(slide reachable through a slide jump only)", b.getvalue()))
    # -- notes master related from the notes slide only
    prs = build_deck()
    b = io.BytesIO(); prs.save(b)
    z = zipfile.ZipFile(io.BytesIO(b.getvalue()))
    o = io.BytesIO()
    with zipfile.ZipFile(o, "w", zipfile.ZIP_DEFLATED) as zo:
        for n in z.namelist():
            data = z.read(n)
            if n == "ppt/_rels/presentation.xml.rels":
                t = data.decode("utf-8")
                m = re.search(r'<Relationship [^>]*notesMaster[^>]*/>', t)
                rid = re.search(r'Id="(rId\d+)"', m.group(0)).group(1) if m else None
                if m:
                    t = t.replace(m.group(0), "")
                data = t.encode("utf-8")
                drop = rid
            zo.writestr(n, data)
    # the presentation part names the relationship in p:notesMasterIdLst: remove that too
    z2 = zipfile.ZipFile(io.BytesIO(o.getvalue()))
    o2 = io.BytesIO()
    with zipfile.ZipFile(o2, "w", zipfile.ZIP_DEFLATED) as zo:
        for n in z2.namelist():
            data = z2.read(n)
            if n == "ppt/presentation.xml":
                data = re.sub(rb"<p:notesMasterIdLst>.*?</p:notesMasterIdLst>", b"", data, flags=re.S)
            zo.writestr(n, data)
    out.append(("generated-deck(notes master related from its notes slide only)", o2.getvalue()))
    # -- a notes slide that does not refer back to its slide; a notes slide shared by two slides (what the usual
    # -- copy-the-relationships recipe for duplicating a slide leaves)
    prs = build_deck()
    prs.slides[0].notes_slide.notes_text_frame.text = "n0"
    b = io.BytesIO(); prs.save(b)
    z = zipfile.ZipFile(io.BytesIO(b.getvalue()))
    notes = sorted(n for n in z.namelist() if re.fullmatch(r"ppt/notesSlides/_rels/notesSlide\d+\.xml\.rels", n))
    for variant in ("no-back-relationship", "shared-by-two-slides"):
        o = io.BytesIO()
        with zipfile.ZipFile(o, "w", zipfile.ZIP_DEFLATED) as zo:
            shared = None
            for n in z.namelist():
                data = z.read(n)
                if variant == "no-back-relationship" and n == notes[0]:
                    data = re.sub(rb'<Relationship [^>]*relationships/slide"[^>]*/>', b"", data)
                if variant == "shared-by-two-slides" and re.fullmatch(r"ppt/slides/_rels/slide\d+\.xml\.rels", n) and b"notesSlide" not in data:
                    if shared is None:
                        shared = n
                        tgt = "../notesSlides/" + notes[0].split("/")[-1][: -len(".rels")]
                        data = data.replace(b"</Relationships>", ('<Relationship Id="rId77" Type="http://schemas.openxmlformats.org/officeDocument/2006/'
                                            'relationships/notesSlide" Target="%s"/></Relationships>' % tgt).encode())
                zo.writestr(n, data)
        out.append((f"generated-deck(notes slide: {variant})", o.getvalue()))
    # -- a notes slide but no notes master anywhere: neither the presentation part nor the notes slide relates to one
    # -- (reading the notes placeholders' geometry must not conjure one up)
    o = io.BytesIO()
    with zipfile.ZipFile(o, "w", zipfile.ZIP_DEFLATED) as zo:
        for n in z.namelist():
            data = z.read(n)
            if n.startswith("ppt/notesMasters/"):
                continue
            if n == "ppt/_rels/presentation.xml.rels" or re.fullmatch(r"ppt/notesSlides/_rels/notesSlide\d+\.xml\.rels", n):
                data = re.sub(rb'<Relationship [^>]*relationships/notesMaster"[^>]*/>', b"", data)
            if n == "ppt/presentation.xml":
                data = re.sub(rb"<p:notesMasterIdLst>.*?</p:notesMasterIdLst>", b"", data, flags=re.S)
            if n == "[Content_Types].xml":
                data = re.sub(rb'<Override [^>]*notesMasters/[^>]*/>', b"", data)
            zo.writestr(n, data)
    out.append(("generated-deck(notes slide, no notes master in the package)", o.getvalue()))
    # -- a slide-id entry whose relationship was voided (Target="slides/NULL": the loader drops it, the documented case),
    # -- behind valid entries, in a deck whose slide parts are not numbered in presentation order: the first access to
    # -- the slide collection raises; nothing may have been renamed by then
    prs = build_deck()
    for _ in range(2):
        prs.slides.add_slide(prs.slide_layouts[6]).shapes.add_textbox(0, 0, 9, 9).text_frame.text = "y"
    b = io.BytesIO(); prs.save(b)
    data0 = renumber_slides(b.getvalue(), random.Random(3)) or b.getvalue()
    for attempt in range(6):
        data0 = renumber_slides(b.getvalue(), random.Random(attempt))
        if data0 and b"slide2.xml" in data0:
            break
    z = zipfile.ZipFile(io.BytesIO(data0 or b.getvalue()))
    pres = z.read("ppt/presentation.xml").decode("utf-8")
    rids = re.findall(r'<p:sldId [^>]*r:id="(rId\d+)"', pres)
    if len(rids) >= 3:
        bad = rids[-1] if rng.random() < 0.5 else rids[len(rids) // 2]
        o = io.BytesIO()
        with zipfile.ZipFile(o, "w", zipfile.ZIP_DEFLATED) as zo:
            for n in z.namelist():
                data = z.read(n)
                if n == "ppt/_rels/presentation.xml.rels":
                    data = re.sub((r'(<Relationship [^>]*Id="%s"[^>]*Target=")[^"]*(")' % bad).encode(), rb"\1slides/NULL\2", data)
                    data = re.sub((r'(<Relationship [^>]*Target=")[^"]*("[^>]*Id="%s")' % bad).encode(), rb"\1slides/NULL\2", data)
                zo.writestr(n, data)
        out.append(("generated-deck(a slide id whose relationship is voided, slide parts out of order)", o.getvalue()))
    return out


class Observer:
    """wraps every access; records the effect of each accessor"""

    def __init__(self, pkg, label):
        self.pkg, self.label = pkg, label
        self.effects = {}      # accessor -> worst effect seen (0 pure, 1 adds-empty, 2 changes)
        self.calls = {}
        self.changed = []      # (accessor, object repr, before bytes, after bytes, python verdict)
        self.nparts = self.count_parts()

    def count_parts(self):
        return sorted(str(p.partname) for p in self.pkg.iter_parts())

    def __call__(self, obj, cls, name, ctx_el):
        acc = R.owner_name(cls, name)
        before = etree.tostring(ctx_el) if ctx_el is not None else b""
        if name in ("__iter__", "__len__"):
            v = iter(obj) if name == "__iter__" else len(obj)
        else:
            v = getattr(obj, name)
        self.calls[acc] = self.calls.get(acc, 0) + 1
        after = etree.tostring(ctx_el) if ctx_el is not None else b""
        eff = 0
        if before != after:
            same = R.canon(etree.fromstring(before)) == R.canon(etree.fromstring(after))
            eff = 1 if same else 2
            self.changed.append((acc, type(obj).__name__, before, after, eff))
        if acc in R.DOCUMENTED_CREATORS or eff == 2:
            parts = self.count_parts()
            if parts != self.nparts:
                self.changed.append((acc, type(obj).__name__, b"<parts>" + ",".join(self.nparts).encode(), b"<parts>" + ",".join(parts).encode(), 2))
                self.nparts = parts
                eff = 2
        if eff > self.effects.get(acc, 0):
            self.effects[acc] = eff
        self.effects.setdefault(acc, 0)
        return v


def observe_deck(prs, label, rng, max_objects):
    ob = Observer(prs.part.package, label)
    R.traverse(prs, ob, rng, max_objects=max_objects)
    # parts added or dropped by accessors that are neither creators nor changed their own part
    parts = ob.count_parts()
    if parts != ob.nparts:
        ob.changed.append(("<unattributed>", "package", b"<parts>" + ",".join(ob.nparts).encode(), b"<parts>" + ",".join(parts).encode(), 2))
        ob.effects["<unattributed>"] = 2
    return ob


_observed = None


def observe_all(quick, seed):
    """-> list of Observer (cached within one run: the translator and the correspondence use the same observation)"""
    global _observed
    if _observed is not None:
        return _observed
    from pptx import Presentation
    from harness.props.c09 import build_deck

    rng = random.Random(f"c12-{seed}")
    out = []
    out.append(observe_deck(build_deck(), "generated-deck", rng, 3000))
    b = io.BytesIO(); build_deck().save(b)
    for k in range(2 if quick else 10):
        td, n = thin(b.getvalue(), rng)
        out.append(observe_deck(Presentation(io.BytesIO(td)), f"generated-deck(thinned#{k},{n} removed)", rng, 3000))
    for k in range(1 if quick else 4):
        # chart parts thinned to (nearly) the minimum the schema requires: every optional element a getter may look for
        # is absent somewhere
        td, n = thin(b.getvalue(), rng, only="/ppt/charts/", factor=3)
        out.append(observe_deck(Presentation(io.BytesIO(td)), f"generated-deck(charts thinned to the minimum#{k},{n} removed)", rng, 3000))
    for k in range(1 if quick else 5):
        ed, n = enrich(b.getvalue(), rng, per_part=40)
        out.append(observe_deck(Presentation(io.BytesIO(ed)), f"generated-deck(enriched#{k},{n} added)", rng, 3000))
    for d in decks_for(quick, rng):
        try:
            prs = Presentation(str(d))
        except Exception:  # noqa
            continue
        out.append(observe_deck(prs, d.name, rng, 1200 if quick else 4000))
        if d.name.startswith(("cht-", "shp-", "txt-", "tbl-", "dml-")) or not quick:
            try:
                td, n = thin(d.read_bytes(), rng)
                out.append(observe_deck(Presentation(io.BytesIO(td)), f"{d.name}(thinned,{n} removed)", rng, 1200 if quick else 4000))
            except Exception:  # noqa
                pass
    _observed = out
    return out


def translate(ctx):
    quick = True if ctx is None else ctx.quick
    seed = 0 if ctx is None else ctx.seed
    obs = observe_all(quick, seed)
    eff = {}
    for ob in obs:
        for a, e in ob.effects.items():
            eff[a] = max(eff.get(a, 0), e)
    mut = sorted(a for a, e in eff.items() if e == 2)
    import os
    if os.environ.get("C12_DEBUG"):
        with open("/tmp/c12-translate.log", "a") as fh:
            fh.write(f"seed={seed} changing={mut}\n")
            for ob in obs:
                for acc, objname, before, after, e in ob.changed:
                    if e == 2 and acc not in R.DOCUMENTED_CREATORS and acc not in known_mutators():
                        fh.write(f"   {ob.label} {acc} {objname} {before[:80]!r}\n")
    doc = sorted(R.DOCUMENTED_CREATORS)
    src = ["-- GENERATED by harness/props/c12.py: effect of every public read accessor, observed on the real objects of a generated",
           "-- deck and of corpus decks (0 = pure, 1 = adds only empty attribute-less containers, 2 = changes the document).",
           "namespace Pptx.Gen.C12", "",
           f"-- accessors observed: {len(eff)}; pure: {sum(1 for e in eff.values() if e == 0)}; adds-empty: {sum(1 for e in eff.values() if e == 1)}; changing: {len(mut)}",
           "def addsEmpty : List String := [" + ", ".join('"%s"' % a for a in sorted(a for a, e in eff.items() if e == 1)) + "]",
           "def changing : List String := [" + ", ".join('"%s"' % a for a in mut) + "]",
           "def documentedCreators : List String := [" + ", ".join('"%s"' % a for a in doc) + "]",
           "-- listed in /verif/known_findings.json (genuine defects recorded, not repaired)",
           "def knownFindings : List String := [" + ", ".join('"%s"' % a for a in sorted(known_mutators())) + "]",
           "-- STATIC side (harness/readlab.py: static_creators): public getters whose source calls something that creates, inserts or",
           "-- removes XML - read out of /repo's source on every run",
           "def staticCreators : List String := [" + ", ".join('"%s"' % a for a in R.static_creators(str(common.REPO / "src" / "pptx"))) + "]",
           "-- reviewed by hand, each with its reason in harness/readlab.py: STATIC_EXEMPT",
           "def exemptStatic : List String := [" + ", ".join('"%s"' % a for a in sorted(R.STATIC_EXEMPT)) + "]",
           "end Pptx.Gen.C12", ""]
    lg.write_if_changed(GEN, "\n".join(src))
    srcp = ["-- GENERATED by harness/props/c12.py: the obligation over the observed effect table",
            "import PptxModel.Gen.C12", "namespace Pptx.GenProps.C12", "open Pptx.Gen.C12", "",
            "/-- every accessor observed to change a document is one the documentation describes as creating content, or one of",
            "    the listed known findings -/",
            "theorem changing_accessors_documented :",
            "    changing.all (fun a => documentedCreators.contains a || knownFindings.contains a) = true := by decide", "",
            "/-- the observation reaches every getter that CAN create: each getter whose source creates, inserts or removes XML was",
            "    seen doing so (adds-empty or changing) on some document, or is a documented creator, a listed finding, or exempt for a",
            "    stated reason - a getter that gains such a call, or one the traversal never reaches, breaks this -/",
            "theorem static_creators_accounted :",
            "    staticCreators.all (fun a => addsEmpty.contains a || changing.contains a || documentedCreators.contains a ||",
            "      knownFindings.contains a || exemptStatic.contains a) = true := by decide", "",
            "end Pptx.GenProps.C12", ""]
    lg.write_if_changed(GENP, "\n".join(srcp))


# ------------------------------------------------------------------------------------------------ saved files
def content_types(data):
    """-> function member name -> content type, from [Content_Types].xml"""
    z = zipfile.ZipFile(io.BytesIO(data))
    root = etree.fromstring(z.read("[Content_Types].xml"))
    ov, df = {}, {}
    for e in root:
        if e.tag.endswith("}Override"):
            ov[e.get("PartName").lstrip("/").lower()] = e.get("ContentType")
        elif e.tag.endswith("}Default"):
            df[e.get("Extension").lower()] = e.get("ContentType")
    return lambda m: ov.get(m.lower(), df.get(m.rsplit(".", 1)[-1].lower()))


def read_package(data):
    """-> {relationship path: (member name, bytes)} by walking .rels files from the package root"""
    z = zipfile.ZipFile(io.BytesIO(data))
    names = set(z.namelist())
    out = {}
    seen = set()

    def rels_of(member):
        d, f = posixpath.split(member)
        r = posixpath.join(d, "_rels", f + ".rels") if member else "_rels/.rels"
        if r not in names:
            return []
        root = etree.fromstring(z.read(r))
        res = []
        for rel in root:
            if rel.get("TargetMode") == "External":
                continue
            tgt = rel.get("Target")
            base = posixpath.dirname(member)
            m = posixpath.normpath(posixpath.join(base, tgt)).lstrip("/") if not tgt.startswith("/") else tgt.lstrip("/")
            res.append((rel.get("Id"), m))
        return sorted(res)

    stack = [((), "")]
    while stack:
        key, member = stack.pop()
        for rid, m in rels_of(member):
            if m in seen:
                continue
            seen.add(m)
            k = key + (rid,)
            if m in names:
                out[k] = (m, z.read(m))
            stack.append((k, m))
    return out


def read_rel_sets(data):
    """-> {relationship path of the source part: sorted [(Id, Type, 'external:<target>' | 'internal')]} for the parts
    reachable from the package root; relationships whose internal target is not in the zip are left out (the loader drops
    them)"""
    z = zipfile.ZipFile(io.BytesIO(data))
    names = set(z.namelist())
    out, seen = {}, set()
    stack = [((), "")]
    while stack:
        key, member = stack.pop()
        d, f = posixpath.split(member)
        r = posixpath.join(d, "_rels", f + ".rels") if member else "_rels/.rels"
        if r not in names:
            continue
        rows = []
        for rel in etree.fromstring(z.read(r)):
            rid, ty, tgt = rel.get("Id"), rel.get("Type"), rel.get("Target")
            if rel.get("TargetMode") == "External":
                rows.append((rid, ty, "external:" + tgt))
                continue
            base = posixpath.dirname(member)
            m = posixpath.normpath(posixpath.join(base, tgt)).lstrip("/") if not tgt.startswith("/") else posixpath.normpath(tgt).lstrip("/")
            if m not in names:
                continue
            rows.append((rid, ty, "internal"))
            if m not in seen:
                seen.add(m)
                stack.append((key + (rid,), m))
        out[key] = sorted(rows)
    return out


def traverse_and_save(deck_bytes, rng, ctx, blame=None, checkpoint=None):
    """`blame`: (member name, list) - after every call the canonical form of that part is compared with what it was and
    the accessor that changed it is appended to the list (used only to explain a difference already found)"""
    from pptx import Presentation

    prs = Presentation(io.BytesIO(deck_bytes))
    calls = [0]
    watch = None
    if blame is not None:
        from harness import xmllab as X
        for pn, el in X.xml_parts(prs.part.package):
            if pn.lstrip("/") == blame[0].lstrip("/"):
                watch = [el, R.canon(el)]

    def access(obj, cls, name, ctx_el):
        calls[0] += 1
        if name == "__iter__":
            return iter(obj)
        if name == "__len__":
            return len(obj)
        try:
            v = getattr(obj, name)
        finally:
            if watch is not None:
                c = R.canon(watch[0])
                if c != watch[1]:
                    watch[1] = c
                    blame[1].append(f"{type(obj).__name__}.{name}")
        if rng.random() < 0.05:      # repetition
            getattr(obj, name)
        return v

    if (rng.random() < 0.5) if checkpoint is None else checkpoint:
        prs.save(io.BytesIO())         # a checkpoint save before anything has been read
        ctx.count("checkpoint-save-before-reading")
    rounds = rng.choice([1, 1, 2])
    for r in range(rounds):
        R.traverse(prs, access, rng, max_objects=1500 if ctx.quick else 5000, skip=frozenset(R.DOCUMENTED_CREATORS | known_mutators()))
        if rng.random() < 0.6:
            prs.save(io.BytesIO())     # an intermediate save
            ctx.count("intermediate-save")
    buf = io.BytesIO()
    prs.save(buf)
    ctx.count("accessor-calls(end-to-end)", calls[0])
    return buf.getvalue()


def end_to_end(ctx, label, data, lines, metas, checkpoint=None):
    from pptx import Presentation

    rng = random.Random(f"c12-e2e-{ctx.seed}-{label}")
    a = io.BytesIO()
    Presentation(io.BytesIO(data)).save(a)
    pa = read_package(a.getvalue())
    saved = traverse_and_save(data, rng, ctx, checkpoint=checkpoint)
    names = zipfile.ZipFile(io.BytesIO(saved)).namelist()
    if len(set(names)) != len(names):
        dup = sorted(n for n in set(names) if names.count(n) > 1)
        ctx.fail("e2e:duplicate-member", f"{label}: the deck saved after reading has duplicate zip members {dup[:4]}", {"deck": label})
    pb = read_package(saved)
    cta, ctb = content_types(a.getvalue()), content_types(saved)
    for k in sorted(set(pa) & set(pb)):
        if cta(pa[k][0]) != ctb(pb[k][0]):
            ctx.fail("e2e:content-type", f"{label}: {pa[k][0]} is typed {cta(pa[k][0])!r} in the straight save, {pb[k][0]} {ctb(pb[k][0])!r} after reading", {"deck": label})
            break
    T = schemagen.tables()
    roots, inner = container_ids()
    case = {"deck": label}
    ra_, rb_ = read_rel_sets(a.getvalue()), read_rel_sets(saved)
    for k in sorted(set(ra_) & set(rb_)):
        if ra_[k] != rb_[k]:
            src = pa[k][0] if k in pa else "the package"
            more = [r for r in rb_[k] if r not in ra_[k]]
            less = [r for r in ra_[k] if r not in rb_[k]]
            ctx.fail("e2e:relationships", f"{label}: the relationships of {src} differ after reading the presentation: added {more[:3]}, missing {less[:3]}", dict(case, part=src))
            break
    ctx.count("e2e-relationship-items-compared", len(set(ra_) & set(rb_)))
    if set(pa) != set(pb):
        only_a = sorted(pa[k][0] for k in set(pa) - set(pb))
        only_b = sorted(pb[k][0] for k in set(pb) - set(pa))
        ctx.fail("e2e:part-set", f"{label}: parts differ after a traversal: only in the straight save {only_a[:5]}, only after reading {only_b[:5]}", case)
    for k in sorted(set(pa) & set(pb)):
        (ma, da), (mb, db) = pa[k], pb[k]
        ctx.case(key=("e2e", label, ma))
        if da == db:
            ctx.count("e2e-part-identical")
            continue
        is_xml = da.lstrip()[:1] == b"<"
        if not is_xml:
            ctx.fail("e2e:binary-part", f"{label}: {ma} differs after reading ({hashlib.sha1(da).hexdigest()[:8]} vs {hashlib.sha1(db).hexdigest()[:8]})", dict(case, part=ma))
            continue
        ra, rb = etree.fromstring(da), etree.fromstring(db)
        same = R.canon(ra) == R.canon(rb)
        ctx.count("e2e-part-" + ("same-up-to-empty-containers" if same else "DIFFERENT"))
        lines.append(f"c12.same {','.join(map(str, roots))} {','.join(map(str, inner))} {T.encode(ra)} | {T.encode(rb)}")
        metas.append(({"deck": label, "part": ma, "what": "end-to-end"}, "same-up-to-empty-containers" if same else "different"))
        if not same:
            who = []
            try:
                traverse_and_save(data, random.Random(f"c12-e2e-{ctx.seed}-{label}"), ctx, blame=(ma, who), checkpoint=checkpoint)
            except Exception:  # noqa
                pass
            ctx.fail("e2e:xml-part" + (":" + who[0] if who else ""), f"{label}: {ma} changed by reading the presentation (beyond empty attribute-less containers): "
                     f"{first_difference(ra, rb)}; changing accessors in a replay of the same traversal: {who[:4]}", dict(case, part=ma, accessors=who[:6]))


def first_difference(a, b, path=""):
    """where two lxml trees first differ (for the report only)"""
    q = lambda e: etree.QName(e).localname if isinstance(e.tag, str) else "#"  # noqa
    here = f"{path}/{q(a)}"
    if a.tag != b.tag:
        return f"{here}: element <{q(a)}> vs <{q(b)}>"
    if dict(a.attrib) != dict(b.attrib):
        ks = sorted(set(a.attrib) | set(b.attrib))
        d = [(k.split('}')[-1], a.get(k), b.get(k)) for k in ks if a.get(k) != b.get(k)]
        return f"{here}: attributes differ {d[:3]}"
    if (a.text or "").strip() != (b.text or "").strip():
        return f"{here}: text {a.text!r} vs {b.text!r}"
    ka, kb = [c for c in a if isinstance(c.tag, str)], [c for c in b if isinstance(c.tag, str)]
    for i, (x, y) in enumerate(zip(ka, kb)):
        d = first_difference(x, y, here + f"[{i}]" if False else here)
        if d:
            return d
    if len(ka) != len(kb):
        extra = (ka if len(ka) > len(kb) else kb)[min(len(ka), len(kb))]
        return f"{here}: {len(ka)} vs {len(kb)} children; first unmatched <{q(extra)}> ({'straight save' if len(ka) > len(kb) else 'after reading'})"
    return None


def correspond(ctx):
    from harness.props.c09 import build_deck

    translate(ctx)
    T = schemagen.tables()
    roots, inner = container_ids()
    obs = observe_all(ctx.quick, ctx.seed)
    lines, metas = [], []
    eff = {}
    for ob in obs:
        for a, n in ob.calls.items():
            ctx.case(key=("accessor", a, ob.effects.get(a, 0)))
        ctx.count("accessor-calls(observed)", sum(ob.calls.values()))
        for a, e in ob.effects.items():
            eff[a] = max(eff.get(a, 0), e)
        for acc, objname, before, after, e in ob.changed:
            case = {"deck": ob.label, "accessor": acc, "object": objname}
            if before.startswith(b"<parts>"):
                if acc not in R.DOCUMENTED_CREATORS:
                    ctx.fail("mutates:" + acc, f"{ob.label}: reading {acc} changed the package's parts: {before[7:200].decode()} -> {after[7:200].decode()}", case)
                continue
            verdict = "same-up-to-empty-containers" if e == 1 else "different"
            if len(lines) < (400 if ctx.quick else 4000):
                lines.append(f"c12.same {','.join(map(str, roots))} {','.join(map(str, inner))} {T.encode(etree.fromstring(before))} | {T.encode(etree.fromstring(after))}")
                metas.append((case, verdict))
            if e == 2 and acc not in R.DOCUMENTED_CREATORS:
                ctx.fail("mutates:" + acc, f"{ob.label}: reading {acc} on a {objname} changed the part beyond adding empty containers", case)
    ctx.extra["accessors"] = {"observed": len(eff), "pure": sum(1 for e in eff.values() if e == 0), "adds_empty": sorted(a for a, e in eff.items() if e == 1),
                              "changing": sorted(a for a, e in eff.items() if e == 2)}
    # end to end
    rng = ctx.rng
    b = io.BytesIO(); build_deck().save(b)
    end_to_end(ctx, "generated-deck", b.getvalue(), lines, metas)
    gen = b.getvalue()
    for k in range(2 if ctx.quick else 8):
        td, n = thin(gen, rng)
        end_to_end(ctx, f"generated-deck(thinned#{k})", td, lines, metas)
        ctx.count("thinned-removals", n)
    for k in range(2 if ctx.quick else 8):
        ed, n = enrich(gen, rng, per_part=40)
        end_to_end(ctx, f"generated-deck(enriched#{k})", ed, lines, metas)
        ctx.count("enriched-additions", n)
    b3 = io.BytesIO()
    prs3 = build_deck(); prs3.slides.add_slide(prs3.slide_layouts[5]); prs3.slides.add_slide(prs3.slide_layouts[1]); prs3.save(b3)
    for k in range(3 if ctx.quick else 10):
        rd = renumber_slides(b3.getvalue(), rng)
        if rd is not None:
            end_to_end(ctx, f"generated-deck(slides renumbered#{k})", rd, lines, metas)
            # the same deck saved once BEFORE anything is read (names still as the file gave them), read (the slide parts
            # are renamed on first access), saved again: what the first save remembered must not be written the second time
            end_to_end(ctx, f"generated-deck(slides renumbered#{k}, saved before reading)", rd, lines, metas, checkpoint=True)
            ctx.count("renumbered-decks")
    for lab, data in irregular_variants(rng):
        try:
            end_to_end(ctx, lab, data, lines, metas)
            ctx.count("irregular-input-decks")
        except Exception as e:  # noqa
            ctx.count(f"e2e-aborted:{type(e).__name__}")
            ctx.note(f"end-to-end on {lab} aborted: {type(e).__name__}: {str(e)[:160]}")
    for d in decks_for(ctx.quick, random.Random(f"c12-{ctx.seed}"))[: (6 if ctx.quick else 100)]:
        try:
            end_to_end(ctx, d.name, d.read_bytes(), lines, metas)
            rd = renumber_slides(d.read_bytes(), rng)
            if rd is not None and rng.random() < (0.5 if ctx.quick else 1.0):
                end_to_end(ctx, d.name + "(slides renumbered)", rd, lines, metas, checkpoint=True)
                ctx.count("renumbered-decks")
        except Exception as e:  # noqa
            ctx.count(f"e2e-aborted:{type(e).__name__}")
            ctx.note(f"end-to-end on {d.name} aborted: {type(e).__name__}: {str(e)[:120]}")
    res = ctx.driver.run(lines)
    for (case, verdict), r in zip(metas, res):
        ctx.traces += 1
        ctx.count("model-verdict:" + r)
        if r != verdict:
            ctx.disagree("canonical-form", case, verdict, r)
    if metas:
        ctx.sample({"case": metas[0][0], "python": metas[0][1], "model": res[0]})


def search(ctx, hints):
    global _observed
    _observed = None
    correspond(ctx)


def replay(ctx, data):
    for f in data.get("failing_inputs_on_real_code", []):
        print(f["what"][:500])
    for d in data.get("correspondence_disagreements", []):
        print("model/impl disagreement:", str(d)[:500])
    return 1
