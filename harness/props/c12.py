"""C12 — inspecting a presentation does not change it."""
from __future__ import annotations

import hashlib
import io
import posixpath
import random
import zipfile

from lxml import etree

from harness import common, leangen as lg, readlab as R, schemagen

ID = "C12"
LEAN_MODULES = ["PptxModel.Props.C12", "PptxModel.GenProps.C12"]
RULE = (
    "every public property (plain and lazy) of every pptx object reachable from a Presentation by reflection - slides, "
    "layouts, masters, notes, shapes of every kind, placeholders, text frames, paragraphs, runs, fonts, fills, lines, "
    "colours, tables, cells, charts, plots, series, points, axes, legends, data labels, parts, relationships - plus "
    "iteration and len() of every collection, over a generated deck holding every kind of object and over the corpus "
    "decks, in seeded order.  (a) per access: the owning part and the package's part list before / after; an access that "
    "changes anything is classified by the canonical form (empty attribute-less containers erased) computed in Python and "
    "by the Lean model on the same two trees; (b) end to end: a deck traversed completely (documented creators excepted), "
    "with repetitions and intermediate saves, then saved, against the same deck saved straight after opening: same parts "
    "(matched by relationship path), XML equal up to the canonical form, other parts byte-identical.  "
    "Non-trivial = distinct (accessor, effect) and distinct (deck, part) pairs."
)
ASSUMPTIONS = [
    "the per-accessor effect table is observed on the objects of the generated deck and of the corpus: a getter that "
    "mutates only in a document shape present in neither is invisible (what is proved is the lift from per-accessor "
    "effects to arbitrary read histories)",
    "container sets (what counts as an empty formatting container) and the list of documented creators are fixed by hand "
    "in harness/readlab.py from the property text and the docstrings",
    "parts of the two saved files are matched by their relationship path from the package root (first access to "
    "Presentation.slides renames slide parts: C02)",
]
TRUSTED = ["harness/readlab.py (reflection, canonical form on lxml trees)", "the zip / relationship reader in this module"]

GEN = common.LEAN / "PptxModel" / "Gen" / "C12.lean"
GENP = common.LEAN / "PptxModel" / "GenProps" / "C12.lean"


def known_mutators():
    return {e["key"][len("mutates:"):] for e in common.load_known() if e.get("property") == ID and e.get("kind") == "finding" and e["key"].startswith("mutates:")}


def container_ids():
    T = schemagen.tables()
    return [T.tag_id.get(t, 0) for t in sorted(R.ROOTS)], [T.tag_id.get(t, 0) for t in sorted(R.INNER)]


def decks_for(quick, rng):
    decks = common.corpus_decks()
    if quick:
        decks = sorted(rng.sample(decks, 10), key=str)
    return decks


class Observer:
    """wraps every access; records the effect of each accessor"""

    def __init__(self, pkg, label):
        self.pkg, self.label = pkg, label
        self.effects = {}      # accessor -> worst effect seen (0 pure, 1 adds-empty, 2 changes)
        self.calls = {}
        self.changed = []      # (accessor, object repr, before bytes, after bytes, python verdict)
        self.nparts = self.count_parts()

    def count_parts(self):
        return sorted(str(p.partname) for p in self.pkg.iter_parts())

    def __call__(self, obj, cls, name, ctx_el):
        acc = R.owner_name(cls, name)
        before = etree.tostring(ctx_el) if ctx_el is not None else b""
        if name in ("__iter__", "__len__"):
            v = iter(obj) if name == "__iter__" else len(obj)
        else:
            v = getattr(obj, name)
        self.calls[acc] = self.calls.get(acc, 0) + 1
        after = etree.tostring(ctx_el) if ctx_el is not None else b""
        eff = 0
        if before != after:
            same = R.canon(etree.fromstring(before)) == R.canon(etree.fromstring(after))
            eff = 1 if same else 2
            self.changed.append((acc, type(obj).__name__, before, after, eff))
        if acc in R.DOCUMENTED_CREATORS or eff == 2:
            parts = self.count_parts()
            if parts != self.nparts:
                self.changed.append((acc, type(obj).__name__, b"<parts>" + ",".join(self.nparts).encode(), b"<parts>" + ",".join(parts).encode(), 2))
                self.nparts = parts
                eff = 2
        if eff > self.effects.get(acc, 0):
            self.effects[acc] = eff
        self.effects.setdefault(acc, 0)
        return v


def observe_deck(prs, label, rng, max_objects):
    ob = Observer(prs.part.package, label)
    R.traverse(prs, ob, rng, max_objects=max_objects)
    # parts added or dropped by accessors that are neither creators nor changed their own part
    parts = ob.count_parts()
    if parts != ob.nparts:
        ob.changed.append(("<unattributed>", "package", b"<parts>" + ",".join(ob.nparts).encode(), b"<parts>" + ",".join(parts).encode(), 2))
        ob.effects["<unattributed>"] = 2
    return ob


_observed = None


def observe_all(quick, seed):
    """-> list of Observer (cached within one run: the translator and the correspondence use the same observation)"""
    global _observed
    if _observed is not None:
        return _observed
    from pptx import Presentation
    from harness.props.c09 import build_deck

    rng = random.Random(f"c12-{seed}")
    out = []
    out.append(observe_deck(build_deck(), "generated-deck", rng, 3000))
    for d in decks_for(quick, rng):
        try:
            prs = Presentation(str(d))
        except Exception:  # noqa
            continue
        out.append(observe_deck(prs, d.name, rng, 1200 if quick else 4000))
    _observed = out
    return out


def translate(ctx):
    quick = True if ctx is None else ctx.quick
    seed = 0 if ctx is None else ctx.seed
    obs = observe_all(quick, seed)
    eff = {}
    for ob in obs:
        for a, e in ob.effects.items():
            eff[a] = max(eff.get(a, 0), e)
    mut = sorted(a for a, e in eff.items() if e == 2)
    doc = sorted(R.DOCUMENTED_CREATORS)
    src = ["-- GENERATED by harness/props/c12.py: effect of every public read accessor, observed on the real objects of a generated",
           "-- deck and of corpus decks (0 = pure, 1 = adds only empty attribute-less containers, 2 = changes the document).",
           "namespace Pptx.Gen.C12", "",
           f"-- accessors observed: {len(eff)}; pure: {sum(1 for e in eff.values() if e == 0)}; adds-empty: {sum(1 for e in eff.values() if e == 1)}; changing: {len(mut)}",
           "def addsEmpty : List String := [" + ", ".join('"%s"' % a for a in sorted(a for a, e in eff.items() if e == 1)) + "]",
           "def changing : List String := [" + ", ".join('"%s"' % a for a in mut) + "]",
           "def documentedCreators : List String := [" + ", ".join('"%s"' % a for a in doc) + "]",
           "-- listed in /verif/known_findings.json (genuine defects recorded, not repaired)",
           "def knownFindings : List String := [" + ", ".join('"%s"' % a for a in sorted(known_mutators())) + "]",
           "end Pptx.Gen.C12", ""]
    lg.write_if_changed(GEN, "\n".join(src))
    srcp = ["-- GENERATED by harness/props/c12.py: the obligation over the observed effect table",
            "import PptxModel.Gen.C12", "namespace Pptx.GenProps.C12", "open Pptx.Gen.C12", "",
            "/-- every accessor observed to change a document is one the documentation describes as creating content, or one of",
            "    the listed known findings -/",
            "theorem changing_accessors_documented :",
            "    changing.all (fun a => documentedCreators.contains a || knownFindings.contains a) = true := by decide", "",
            "end Pptx.GenProps.C12", ""]
    lg.write_if_changed(GENP, "\n".join(srcp))


# ------------------------------------------------------------------------------------------------ saved files
def read_package(data):
    """-> {relationship path: (member name, bytes)} by walking .rels files from the package root"""
    z = zipfile.ZipFile(io.BytesIO(data))
    names = set(z.namelist())
    out = {}
    seen = set()

    def rels_of(member):
        d, f = posixpath.split(member)
        r = posixpath.join(d, "_rels", f + ".rels") if member else "_rels/.rels"
        if r not in names:
            return []
        root = etree.fromstring(z.read(r))
        res = []
        for rel in root:
            if rel.get("TargetMode") == "External":
                continue
            tgt = rel.get("Target")
            base = posixpath.dirname(member)
            m = posixpath.normpath(posixpath.join(base, tgt)).lstrip("/") if not tgt.startswith("/") else tgt.lstrip("/")
            res.append((rel.get("Id"), m))
        return sorted(res)

    stack = [((), "")]
    while stack:
        key, member = stack.pop()
        for rid, m in rels_of(member):
            if m in seen:
                continue
            seen.add(m)
            k = key + (rid,)
            if m in names:
                out[k] = (m, z.read(m))
            stack.append((k, m))
    return out


def traverse_and_save(deck_bytes, rng, ctx):
    from pptx import Presentation

    prs = Presentation(io.BytesIO(deck_bytes))
    calls = [0]

    def access(obj, cls, name, ctx_el):
        calls[0] += 1
        if name == "__iter__":
            return iter(obj)
        if name == "__len__":
            return len(obj)
        v = getattr(obj, name)
        if rng.random() < 0.05:      # repetition
            getattr(obj, name)
        return v

    rounds = rng.choice([1, 1, 2])
    for r in range(rounds):
        R.traverse(prs, access, rng, max_objects=1500 if ctx.quick else 5000, skip=frozenset(R.DOCUMENTED_CREATORS | known_mutators()))
        if rng.random() < 0.6:
            prs.save(io.BytesIO())     # an intermediate save
            ctx.count("intermediate-save")
    buf = io.BytesIO()
    prs.save(buf)
    ctx.count("accessor-calls(end-to-end)", calls[0])
    return buf.getvalue()


def end_to_end(ctx, label, data, lines, metas):
    from pptx import Presentation

    rng = random.Random(f"c12-e2e-{ctx.seed}-{label}")
    a = io.BytesIO()
    Presentation(io.BytesIO(data)).save(a)
    pa = read_package(a.getvalue())
    pb = read_package(traverse_and_save(data, rng, ctx))
    T = schemagen.tables()
    roots, inner = container_ids()
    case = {"deck": label}
    if set(pa) != set(pb):
        only_a = sorted(pa[k][0] for k in set(pa) - set(pb))
        only_b = sorted(pb[k][0] for k in set(pb) - set(pa))
        ctx.fail("e2e:part-set", f"{label}: parts differ after a traversal: only in the straight save {only_a[:5]}, only after reading {only_b[:5]}", case)
    for k in sorted(set(pa) & set(pb)):
        (ma, da), (mb, db) = pa[k], pb[k]
        ctx.case(key=("e2e", label, ma))
        if da == db:
            ctx.count("e2e-part-identical")
            continue
        is_xml = da.lstrip()[:1] == b"<"
        if not is_xml:
            ctx.fail("e2e:binary-part", f"{label}: {ma} differs after reading ({hashlib.sha1(da).hexdigest()[:8]} vs {hashlib.sha1(db).hexdigest()[:8]})", dict(case, part=ma))
            continue
        ra, rb = etree.fromstring(da), etree.fromstring(db)
        same = R.canon(ra) == R.canon(rb)
        ctx.count("e2e-part-" + ("same-up-to-empty-containers" if same else "DIFFERENT"))
        lines.append(f"c12.same {','.join(map(str, roots))} {','.join(map(str, inner))} {T.encode(ra)} | {T.encode(rb)}")
        metas.append(({"deck": label, "part": ma, "what": "end-to-end"}, "same-up-to-empty-containers" if same else "different"))
        if not same:
            ctx.fail("e2e:xml-part", f"{label}: {ma} changed by reading the presentation (beyond empty attribute-less containers)", dict(case, part=ma))


def correspond(ctx):
    from harness.props.c09 import build_deck

    translate(ctx)
    T = schemagen.tables()
    roots, inner = container_ids()
    obs = observe_all(ctx.quick, ctx.seed)
    lines, metas = [], []
    eff = {}
    for ob in obs:
        for a, n in ob.calls.items():
            ctx.case(key=("accessor", a, ob.effects.get(a, 0)))
        ctx.count("accessor-calls(observed)", sum(ob.calls.values()))
        for a, e in ob.effects.items():
            eff[a] = max(eff.get(a, 0), e)
        for acc, objname, before, after, e in ob.changed:
            case = {"deck": ob.label, "accessor": acc, "object": objname}
            if before.startswith(b"<parts>"):
                if acc not in R.DOCUMENTED_CREATORS:
                    ctx.fail("mutates:" + acc, f"{ob.label}: reading {acc} changed the package's parts: {before[7:200].decode()} -> {after[7:200].decode()}", case)
                continue
            verdict = "same-up-to-empty-containers" if e == 1 else "different"
            if len(lines) < (400 if ctx.quick else 4000):
                lines.append(f"c12.same {','.join(map(str, roots))} {','.join(map(str, inner))} {T.encode(etree.fromstring(before))} | {T.encode(etree.fromstring(after))}")
                metas.append((case, verdict))
            if e == 2 and acc not in R.DOCUMENTED_CREATORS:
                ctx.fail("mutates:" + acc, f"{ob.label}: reading {acc} on a {objname} changed the part beyond adding empty containers", case)
    ctx.extra["accessors"] = {"observed": len(eff), "pure": sum(1 for e in eff.values() if e == 0), "adds_empty": sorted(a for a, e in eff.items() if e == 1),
                              "changing": sorted(a for a, e in eff.items() if e == 2)}
    # end to end
    rng = ctx.rng
    b = io.BytesIO(); build_deck().save(b)
    end_to_end(ctx, "generated-deck", b.getvalue(), lines, metas)
    for d in decks_for(ctx.quick, random.Random(f"c12-{ctx.seed}"))[: (6 if ctx.quick else 100)]:
        try:
            end_to_end(ctx, d.name, d.read_bytes(), lines, metas)
        except Exception as e:  # noqa
            ctx.count(f"e2e-aborted:{type(e).__name__}")
            ctx.note(f"end-to-end on {d.name} aborted: {type(e).__name__}: {str(e)[:120]}")
    res = ctx.driver.run(lines)
    for (case, verdict), r in zip(metas, res):
        ctx.traces += 1
        ctx.count("model-verdict:" + r)
        if r != verdict:
            ctx.disagree("canonical-form", case, verdict, r)
    if metas:
        ctx.sample({"case": metas[0][0], "python": metas[0][1], "model": res[0]})


def search(ctx, hints):
    global _observed
    _observed = None
    correspond(ctx)


def replay(ctx, data):
    for f in data.get("failing_inputs_on_real_code", []):
        print(f["what"][:500])
    for d in data.get("correspondence_disagreements", []):
        print("model/impl disagreement:", str(d)[:500])
    return 1
