"""C17 — connector end points, group extents, freeform bounds."""
from __future__ import annotations

import io
from fractions import Fraction

from harness.common import enc_ints

ID = "C17"
LEAN_MODULES = ["PptxModel.Props.C17"]
RULE = (
    "connectors: seeded creation (begin,end) + 1..12 end-point assignments biased to cross the other end point in "
    "either axis (values drawn around the current end points), all six state words compared after every step; "
    "groups: seeded addition sequences (textbox, autoshape, connector, picture, chart, freeform, empty sub-group) at "
    "random nesting paths to depth 4 with coordinates incl. negative, every group's box compared after every step; "
    "freeforms: pens with negative/fractional (dyadic)/repeated vertices, several contours, non-uniform dyadic scales "
    "(exact diff) and non-dyadic scales (±1 EMU, recorded).  Non-trivial = distinct op sequence."
)
ASSUMPTIONS = [
    "float arithmetic in FreeformBuilder is exact for dyadic scales/vertices (exact diff there); for non-dyadic scales the "
    "model's exact rational rounding is compared within 1 EMU",
    "begin_connect/end_connect (experimental) are outside the statement",
    "coordinates stay inside ST_Coordinate's range (the model's Int is unbounded)",
]
TRUSTED = ["which add_* calls recalculate group extents is observed through the public API, not proved"]


def png_bytes():
    from PIL import Image

    b = io.BytesIO()
    Image.new("RGB", (4, 3), (200, 10, 10)).save(b, "PNG")
    return b.getvalue()


# ------------------------------------------------------------------------------------------ connectors


def gen_cxn(rng):
    R = lambda: rng.choice([0, 1, 5, 100, 914400, -300, 12700]) + rng.randint(-50, 50)  # noqa
    bx, by, ex, ey = R(), R(), R(), R()
    if rng.random() < 0.15:
        ex = bx
    if rng.random() < 0.15:
        ey = by
    ops = []
    cur = {"bx": bx, "by": by, "ex": ex, "ey": ey}
    other = {"bx": "ex", "by": "ey", "ex": "bx", "ey": "by"}
    for _ in range(rng.randint(1, 12)):
        k = rng.choice(["bx", "by", "ex", "ey"])
        o = cur[other[k]]
        mode = rng.random()
        if mode < 0.4:  # cross over the other end point
            v = o + rng.choice([-1, 1]) * rng.randint(0, 40)
        elif mode < 0.6:
            v = o  # land exactly on it
        elif mode < 0.8:
            v = cur[k] + rng.randint(-30, 30)
        else:
            v = R()
        cur[k] = v
        ops.append((k, v))
    return bx, by, ex, ey, ops


def impl_cxn(slide, case):
    from pptx.enum.shapes import MSO_CONNECTOR

    bx, by, ex, ey, ops = case
    c = slide.shapes.add_connector(MSO_CONNECTOR.STRAIGHT, bx, by, ex, ey)
    e = c._element

    def snap():
        return "%d,%d,%d,%d,%d,%d,%d,%d,%d,%d" % (e.x, e.cx, int(e.flipH), e.y, e.cy, int(e.flipV),
                                                 c.begin_x, c.begin_y, c.end_x, c.end_y)

    import zlib
    h = zlib.crc32(repr(case).encode())
    respell = h % 3 == 0
    explicit = "0" if h % 2 else "false"

    def foreign_spelling():
        # xsd:boolean as other producers spell it: flipH="true" / flipV="false" (the library writes "1" / "0"), and the
        # unflipped state written out (flipH="0" / "false") where the library leaves the attribute away
        for x in e.xpath(".//a:xfrm"):
            for a in ("flipH", "flipV"):
                if x.get(a) in ("1", "0"):
                    x.set(a, "true" if x.get(a) == "1" else "false")
                elif x.get(a) is None:
                    x.set(a, explicit)
    if respell:
        foreign_spelling()
    outs = [snap()]
    reads = [(c.begin_x, c.begin_y, c.end_x, c.end_y)]
    for k, v in ops:
        setattr(c, {"bx": "begin_x", "by": "begin_y", "ex": "end_x", "ey": "end_y"}[k], v)
        if respell:
            foreign_spelling()
        outs.append(snap())
        reads.append((c.begin_x, c.begin_y, c.end_x, c.end_y, c.width, c.height))
    e.getparent().remove(e)
    return ";".join(outs), reads


def oracle_cxn(ctx, case, reads):
    bx, by, ex, ey, ops = case
    want = {"bx": bx, "by": by, "ex": ex, "ey": ey}
    if tuple(reads[0][:4]) != (bx, by, ex, ey):
        ctx.fail("connector:create", f"connector created with {(bx,by,ex,ey)} reports {reads[0]}", {"kind": "cxn", "case": case})
    for (k, v), r in zip(ops, reads[1:]):
        want[k] = v
        got = dict(zip(["bx", "by", "ex", "ey"], r[:4]))
        if got != want or r[4] < 0 or r[5] < 0:
            ctx.fail("connector:set-" + k, f"after {k}={v}: readings {r}, expected {want}", {"kind": "cxn", "case": case})
            return


# ------------------------------------------------------------------------------------------ groups


class Node:
    def __init__(self, shape, is_group):
        self.shape, self.is_group, self.kids = shape, is_group, []


def gen_grp(rng):
    """list of (path, kind, box); path is a list of shape-child indices naming a group ('-'=slide)"""
    adds = []
    tree = []  # nested lists: each group is a list of kids; leaf = None

    def groups(t, pfx, depth):
        out = [(pfx, t, depth)]
        for i, k in enumerate(t):
            if k is not None:
                out += groups(k, pfx + [i], depth + 1)
        return out

    K = 10**6 if rng.random() < 0.15 else 1   # some histories at magnitudes beyond 32 bits (legal: the schema's coordinates are 64-bit)
    for _ in range(rng.randint(2, 14)):
        gs = groups(tree, [], 0)
        # prefer deep groups
        path, t, depth = rng.choice(gs[-3:] if rng.random() < 0.6 else gs)
        r = rng.random()
        if depth < 4 and r < 0.3:
            kind = "G"
            t.append([])
            adds.append((path, kind, None))
            continue
        if r > 0.85 and (path or t):
            # move / resize an existing shape (group or leaf) through the public setters; no recalculation happens
            if t and rng.random() < 0.5:
                tgt = path + [rng.randrange(len(t))]
            elif path:
                tgt = path
            else:
                tgt = [rng.randrange(len(t))]
            adds.append((tgt, "S", (K * rng.randint(-2000, 5000), K * rng.randint(-2000, 5000), K * rng.randint(0, 3000), K * rng.randint(0, 3000))))
            continue
        kind = rng.choice(["tb", "sp", "cxn", "pic", "ff", "tb", "sp"] + (["chart"] if rng.random() < 0.05 else []))
        x, y = K * rng.randint(-2000, 5000), K * rng.randint(-2000, 5000)
        cx, cy = K * rng.randint(0, 3000), K * rng.randint(0, 3000)
        t.append(None)
        adds.append((path, kind, (x, y, cx, cy)))
    return adds


def impl_grp(slide, adds, png):
    from pptx.chart.data import CategoryChartData
    from pptx.enum.chart import XL_CHART_TYPE
    from pptx.enum.shapes import MSO_CONNECTOR, MSO_SHAPE

    root = Node(None, True)
    before = len(slide.shapes._spTree)
    outs, first_bad = [], None

    def shapes_of(node):
        return slide.shapes if node.shape is None else node.shape.shapes

    def walk(node):
        res = []
        for k in node.kids:
            if k.is_group:
                s = k.shape
                xf = s._element.grpSpPr.xfrm
                res.append("%d,%d,%d,%d~%d,%d,%d,%d" % (s.left, s.top, s.width, s.height, xf.chOff.x, xf.chOff.y, xf.chExt.cx, xf.chExt.cy))
                res += walk(k)
        return res

    def local_bad(k):
        s = k.shape
        xf = s._element.grpSpPr.xfrm
        ms = [m.shape for m in k.kids]
        if ms:
            x0 = min(m.left for m in ms); y0 = min(m.top for m in ms)
            x1 = max(m.left + m.width for m in ms); y1 = max(m.top + m.height for m in ms)
            want = (x0, y0, x1 - x0, y1 - y0)
        else:
            want = (0, 0, 0, 0)
        got = (s.left, s.top, s.width, s.height)
        ch = (xf.chOff.x, xf.chOff.y, xf.chExt.cx, xf.chExt.cy)
        return (got, ch, want) if (got != want or ch != want) else None

    def check_inv(node):
        """L2: every group (below the slide) equals the bounding box of its members, recursively"""
        bad = []
        for k in node.kids:
            if k.is_group:
                s = k.shape
                xf = s._element.grpSpPr.xfrm
                ms = [m.shape for m in k.kids]
                if ms:
                    x0 = min(m.left for m in ms); y0 = min(m.top for m in ms)
                    x1 = max(m.left + m.width for m in ms); y1 = max(m.top + m.height for m in ms)
                    want = (x0, y0, x1 - x0, y1 - y0)
                else:
                    want = (0, 0, 0, 0)
                got = (s.left, s.top, s.width, s.height)
                ch = (xf.chOff.x, xf.chOff.y, xf.chExt.cx, xf.chExt.cy)
                if got != want or ch != want:
                    bad.append((got, ch, want))
                bad += check_inv(k)
        return bad

    moved = False
    for step, (path, kind, box) in enumerate(adds):
        node = root
        chain = []
        for i in path:
            node = node.kids[i]
            chain.append(node)
        if kind == "S":
            s_ = node.shape
            s_.left, s_.top, s_.width, s_.height = box
            moved = True
            outs.append("/".join(walk(root)))
            continue
        sh = shapes_of(node)
        if kind == "G":
            new = Node(sh.add_group_shape(), True)
        else:
            x, y, cx, cy = box
            if kind == "tb":
                s = sh.add_textbox(x, y, cx, cy)
            elif kind == "sp":
                s = sh.add_shape(MSO_SHAPE.RECTANGLE, x, y, cx, cy)
            elif kind == "cxn":
                s = sh.add_connector(MSO_CONNECTOR.STRAIGHT, x, y, x + cx, y + cy)
            elif kind == "pic":
                s = sh.add_picture(io.BytesIO(png), x, y, cx, cy)
            elif kind == "chart":
                cd = CategoryChartData(); cd.categories = ["a"]; cd.add_series("s", [1])
                s = sh.add_chart(XL_CHART_TYPE.PIE, x, y, cx, cy, cd)
            elif kind == "ff":
                fb = sh.build_freeform(0, 0, 1.0)
                fb.add_line_segments([(cx, 0), (cx, cy)], close=False)
                s = fb.convert_to_shape(x, y)
            new = Node(s, False)
        node.kids.append(new)
        outs.append("/".join(walk(root)))
        if first_bad is None:
            # every group on the path from the addition up to the slide must now be exact, whatever happened before;
            # if no shape was ever moved by hand, every group of the whole tree must be
            bad = [b for b in (local_bad(k) for k in chain) if b] or ([] if moved else check_inv(root))
            if bad:
                first_bad = (step, kind, bad[0])
    # clean up
    tree = slide.shapes._spTree
    for el in list(tree)[before:]:
        tree.remove(el)
    return "#".join(outs), first_bad


def enc_adds(adds):
    toks = []
    for path, kind, box in adds:
        p = "/".join(map(str, path)) if path else "-"
        toks.append(f"{p}|G" if kind == "G" else (f"{p}|S|{enc_ints(box)}" if kind == "S" else f"{p}|L|{enc_ints(box)}"))
    return ";".join(toks) if toks else "!"


# ------------------------------------------------------------------------------------------ freeform


def gen_ff(rng, dyadic=True):
    def coord():
        d = rng.choice([1, 1, 1, 2, 4, 8])
        return Fraction(rng.randint(-400, 400) * rng.choice([1, 1, 10]) * (d if rng.random() < 0.3 else 1) + rng.randint(0, d - 1), d)

    def scale():
        if dyadic:
            return Fraction(rng.choice([1, 2, 3, 5, 127, 12700, 9525]), rng.choice([1, 2, 4, 16, 1024]))
        return Fraction(rng.choice([1, 2, 7, 914400]), rng.choice([3, 7, 10, 1000]))

    sx, sy = coord(), coord()
    xs, ys = scale(), (scale() if rng.random() < 0.7 else None)
    if ys is None:
        ys = xs
    ops = []
    for _ in range(rng.randint(0, 10)):
        r = rng.random()
        if r < 0.12:
            ops.append(("C",))
        elif r < 0.25:
            ops.append(("M", coord(), coord()))
        elif r < 0.35 and ops and ops[-1][0] != "C":
            ops.append(("L",) + ops[-1][1:])  # repeated vertex
        else:
            ops.append(("L", coord(), coord()))
    ox, oy = rng.randint(-1000, 100000), rng.randint(-1000, 100000)
    if ops and rng.random() < 0.35:
        i = rng.randrange(len(ops))
        if ops[i][0] != "C":
            ops[i] = ops[i] + ("convert-here",)
    return sx, sy, xs, ys, ox, oy, ops


def fr(f):
    return f"{f.numerator}/{f.denominator}"


def enc_ff(case):
    sx, sy, xs, ys, ox, oy, ops = case
    o = ",".join("C" if op[0] == "C" else f"{op[0]}:{fr(op[1])}:{fr(op[2])}" for op in ops) or "!"
    return f"c17.ff {fr(sx)} {fr(sy)} {fr(xs)} {fr(ys)} {ox} {oy} {o}"


def impl_ff(slide, case):
    from pptx.oxml.ns import qn
    from pptx.util import Emu

    sx, sy, xs, ys, ox, oy, ops = case
    scale = float(xs) if xs == ys else (float(xs), float(ys))
    fb = slide.shapes.build_freeform(float(sx), float(sy), scale)
    for op in ops:
        if op[0] == "C":
            fb._add_close()
        elif op[0] == "M":
            fb.move_to(float(op[1]), float(op[2]))
        else:
            fb.add_line_segments([(float(op[1]), float(op[2]))], close=False)
        if len(op) > 3 and op[3] == "convert-here":
            early = fb.convert_to_shape(Emu(ox), Emu(oy))  # a builder may be converted more than once
            early._element.getparent().remove(early._element)
    s = fb.convert_to_shape(Emu(ox), Emu(oy))
    path = s._element.spPr.custGeom.pathLst[0]
    pts = [(int(pt.get("x")), int(pt.get("y"))) for pt in path.iter(qn("a:pt"))]
    w, h = int(path.get("w")), int(path.get("h"))
    out = ("%d,%d,%d,%d %d,%d %s" % (s.left, s.top, s.width, s.height, w, h, ",".join("%d:%d" % p for p in pts)))
    box = (s.left, s.top, s.width, s.height)
    s._element.getparent().remove(s._element)
    return out, box, (w, h), pts


def pyround(f: Fraction) -> int:
    return round(f)  # Fraction.__round__ is half-even


def oracle_ff(ctx, case, box, wh, pts, exact):
    sx, sy, xs, ys, ox, oy, ops = case
    vx = [pyround(sx)] + [pyround(op[1]) for op in ops if op[0] != "C"]
    vy = [pyround(sy)] + [pyround(op[2]) for op in ops if op[0] != "C"]
    w, h = wh
    if (w, h) != (max(vx) - min(vx), max(vy) - min(vy)):
        ctx.fail("freeform:path-extents", f"a:path w,h={wh} but vertex extents are {(max(vx)-min(vx), max(vy)-min(vy))}", {"kind": "ff", "case": str(case)})
    if any(not (0 <= x <= w and 0 <= y <= h) for x, y in pts):
        ctx.fail("freeform:path-within", f"path point outside 0..{w} x 0..{h}: {pts}", {"kind": "ff", "case": str(case)})
    want = (ox + pyround(min(vx) * xs), oy + pyround(min(vy) * ys), pyround((max(vx) - min(vx)) * xs), pyround((max(vy) - min(vy)) * ys))
    tol = 0 if exact else 1
    if any(abs(a - b) > tol for a, b in zip(box, want)):
        ctx.fail("freeform:box", f"shape box {box}, scaled vertex bounding box + origin {want}", {"kind": "ff", "case": str(case)})


# ------------------------------------------------------------------------------------------


def correspond(ctx):
    from pptx import Presentation

    rng = ctx.rng
    prs = Presentation()
    slide = prs.slides.add_slide(prs.slide_layouts[6])
    png = png_bytes()
    lines, impl, cases = [], [], []

    n_cxn = 1500 if ctx.quick else 20000
    for _ in range(n_cxn):
        case = gen_cxn(rng)
        out, reads = impl_cxn(slide, case)
        oracle_cxn(ctx, case, reads)
        bx, by, ex, ey, ops = case
        line = f"c17.cxn {bx} {by} {ex} {ey} " + (",".join(f"{k}:{v}" for k, v in ops) or "!")
        lines.append(line); impl.append(out); cases.append(("cxn", case))
        ctx.case(key=line); ctx.count("cxn"); ctx.count("cxn-ops", len(ops))
    ctx.sample({"kind": "cxn", "case": cases[0][1], "impl": impl[0]})

    # the edge of the coordinate type: an assignment whose span to the other end point cannot be written is refused and
    # leaves the connector alone (model: `Cxn.stepChecked`)
    from pptx.enum.shapes import MSO_CONNECTOR
    M = 27273042316900
    n_edge = 150 if ctx.quick else 3000
    for _ in range(n_edge):
        LO = -27273042329600   # ST_Coordinate's lower bound (the schema's range is not symmetric)
        E = lambda: rng.choice([0, 5, -7, M, -M, M - 3, -M + 3, M // 2, -M // 2 - 1, M + 1, -M - 1, LO, LO - 1, LO + 2, 914400])  # noqa
        bx, by, ex, ey = [rng.choice([0, 5, -7, M // 2, -M // 2, 914400, M, -M]) for _ in range(4)]
        if abs(ex - bx) > M or abs(ey - by) > M:
            continue   # such a connector cannot be created (out of the property's states)
        try:
            c = slide.shapes.add_connector(MSO_CONNECTOR.STRAIGHT, bx, by, ex, ey)
        except ValueError:
            continue
        e = c._element
        snap = lambda: "%d,%d,%d,%d,%d,%d,%d,%d,%d,%d" % (e.x, e.cx, int(e.flipH), e.y, e.cy, int(e.flipV), c.begin_x, c.begin_y, c.end_x, c.end_y)  # noqa
        outs = [snap()]
        ops = []
        for _k in range(rng.randint(1, 8)):
            k, v = rng.choice(["bx", "by", "ex", "ey"]), E()
            ops.append((k, v))
            before = snap()
            try:
                setattr(c, {"bx": "begin_x", "by": "begin_y", "ex": "end_x", "ey": "end_y"}[k], v)
                outs.append("ok:" + snap())
            except ValueError:
                outs.append("refused:" + snap())
                if snap() != before:
                    ctx.fail("connector:refused-but-changed", f"{k} = {v} was refused with ValueError but the connector changed from {before} to {snap()}",
                             {"kind": "cxn-edge", "case": (bx, by, ex, ey, ops)})
                ctx.count("cxn-edge-refused")
        e.getparent().remove(e)
        line = f"c17.cxnchk {bx} {by} {ex} {ey} " + ",".join(f"{k}:{v}" for k, v in ops)
        lines.append(line); impl.append(";".join(outs)); cases.append(("cxn-edge", (bx, by, ex, ey, ops)))
        ctx.case(key=line); ctx.count("cxn-edge")

    n_grp = 250 if ctx.quick else 4000
    for _ in range(n_grp):
        adds = gen_grp(rng)
        out, first_bad = impl_grp(slide, adds, png)
        line = "c17.grp " + enc_adds(adds)
        lines.append(line); impl.append(out); cases.append(("grp", adds))
        ctx.case(key=line); ctx.count("grp"); ctx.count("grp-adds", len(adds))
        ctx.count("grp-maxdepth-%d" % max(len(p) - (k == "S") for p, k, _ in adds))
        for _, k, _ in adds:
            ctx.count("grp-add-" + k)
        if first_bad:
            step, kind, (got, ch, want) = first_bad
            what = {"G": "add_group_shape() with no members", "ff": "freeform convert_to_shape() inside a group"}.get(kind, kind)
            ctx.fail("group-extents:" + kind, f"after {what} a group has box {got} (chOff/chExt {ch}) but its members' bounding box is {want}",
                     {"kind": "grp", "adds": adds, "step": step})
    ctx.sample({"kind": "grp", "adds": cases[-1][1], "impl": impl[-1]})

    n_ff = 600 if ctx.quick else 8000
    for i in range(n_ff):
        exact = i % 5 != 4
        case = gen_ff(rng, dyadic=exact)
        out, box, wh, pts = impl_ff(slide, case)
        oracle_ff(ctx, case, box, wh, pts, exact)
        line = enc_ff(case)
        lines.append(line); impl.append(out); cases.append(("ff" if exact else "ff~", case))
        ctx.case(key=line); ctx.count("ff-exact" if exact else "ff-nondyadic")
    ctx.sample({"kind": "ff", "case": str(cases[-2][1]), "impl": impl[-2]})

    model = ctx.driver.run(lines)
    for (kind, case), i, m in zip(cases, impl, model):
        ctx.traces += 1
        if i == m:
            continue
        if kind == "ff~":
            a = [int(t) for t in i.split(" ")[0].split(",")]
            b = [int(t) for t in m.split(" ")[0].split(",")]
            if i.split(" ")[1:] == m.split(" ")[1:] and all(abs(x - y) <= 1 for x, y in zip(a, b)):
                ctx.count("ff-float-artefact-within-1emu")
                continue
        if kind == "cxn-edge":
            # the model's verdict is the schema's (proved: a move is accepted iff the resulting offsets and extents are
            # within ST_Coordinate / ST_PositiveCoordinate): a move it accepts and the library refuses, or the reverse,
            # is a failing input of its own
            for st, (a, b) in enumerate(zip(i.split(";"), m.split(";"))):
                if a.split(":")[0] != b.split(":")[0]:
                    bx, by, ex, ey, ops = case
                    k_, v_ = ops[st - 1]
                    ctx.fail("connector:legal-move-" + ("refused" if a.startswith("refused") else "not-refused"),
                             f"connector ({bx},{by})-({ex},{ey}) after {ops[:st - 1]}: {k_} = {v_} is {a.split(':')[0]} by the library; every offset and extent "
                             f"of the result is {'inside' if b.startswith('ok') else 'outside'} the schema's range", {"kind": kind, "case": case})
                    break
        ctx.disagree(kind, str(case), i, m)


def search(ctx, hints):
    # the L2 oracles already ran on the real code inside `correspond`
    return


def replay(ctx, data):
    from pptx import Presentation

    prs = Presentation()
    slide = prs.slides.add_slide(prs.slide_layouts[6])
    bad = 0
    for f in data.get("failing_inputs_on_real_code", []):
        c = f["case"]
        print("replaying:", f["what"])
        if c["kind"] == "grp":
            adds = [(p, k, tuple(b) if b else None) for p, k, b in c["adds"]]
            out, first_bad = impl_grp(slide, adds, png_bytes())
            print(" first invariant break:", first_bad)
            bad += first_bad is not None
        else:
            bad += 1
    for d in data.get("correspondence_disagreements", []):
        print("model/impl disagreement:", d)
        bad += 1
    return 1 if bad else 0
