"""C04 — text assigned is the text read back (frame / cell / paragraph / run), incl. save + re-open."""
from __future__ import annotations

import io

from harness.common import dec, enc

ID = "C04"
LEAN_MODULES = ["PptxModel.Props.C04"]
RULE = (
    "seeded strings over {letters, space, TAB, LF, VT, CR, other C0 controls, & < > \" ' ]]>, NBSP, U+2028, astral, "
    "literal '_x0041_'} of length 0..14 (empty, whitespace-only, leading/trailing/runs of breaks forced in), assigned at "
    "frame (text box, auto shape), cell, paragraph and run level onto bodies in seeded prior states (several paragraphs, "
    "a:fld, a:br, a:pPr with attributes, a:endParaRPr; the same string already assigned at another level or twice); observation = .text at that level + the a:p/a:r/a:br skeleton, "
    "immediately and after 1..3 save/re-open cycles; model compared exactly; the documented translation is also "
    "evaluated by an independent Python oracle on the real read-back.  Non-trivial = distinct (level, prior, string)."
)
ASSUMPTIONS = [
    "survival across re-open depends on libxml2's blank-text handling (remove_blank_text=True): runtime, sampled by the "
    "re-open correspondence only",
    "strings are XML-representable apart from C0 controls (lxml rejects e.g. U+FFFE and lone surrogates with ValueError)",
]
TRUSTED = ["lxml text-node storage/serialisation of a:t content"]

ALPHA = (
    ["a", "b", "Z", "é", " ", " ", "\t", "\n", "\n", "\v", "\v", "\r", "\x00", "\x07", "\x08", "\x0c", "\x0e", "\x1b", "\x1f",
     "&", "<", ">", '"', "'", "]]>", "&amp;", " ", " ", "\U0001F600", "_x0041_", "_"]
)


def gen_str(rng):
    r = rng.random()
    if r < 0.04:
        return ""
    if r < 0.10:
        return rng.choice([" ", "  ", "\t", "\n", "\v", "\n\n", "\v\v", " \n ", "\n\v\n", "\r\n"])
    if r < 0.16:
        # many breaks in one paragraph / many paragraphs (counts 9, 17, 33, 65: one past a small power of two)
        n = rng.choice([9, 10, 17, 33, 65])
        brk = rng.choice(["\v", "\n", "\v", None])
        return "".join(rng.choice(["x", "y", "", "é", " "]) + (brk or rng.choice(["\n", "\v"])) for _ in range(n)) + rng.choice(["", "end"])
    s = "".join(rng.choice(ALPHA) for _ in range(rng.randint(1, 14)))
    if rng.random() < 0.15:
        s = rng.choice(["\n", "\v", " "]) + s
    if rng.random() < 0.15:
        s = s + rng.choice(["\n", "\v", " "])
    return s


def expected(level, s):
    """the documented translation, written directly from the property statement"""
    out = []
    for ch in s:
        o = ord(ch)
        if level in ("frame", "cell", "shape"):
            keep = ch in "\n\v\t"
        elif level == "para":
            if ch in "\n\v":
                out.append("\v")
                continue
            keep = ch == "\t"
        else:  # run
            keep = ch in "\n\t"
        if o < 0x20 and not keep:
            out.append("_x%04X_" % o)
        else:
            out.append(ch)
    return "".join(out)


FLD = ('<a:fld xmlns:a="http://schemas.openxmlformats.org/drawingml/2006/main" id="{B6F15528-21DE-4FAA-801E-634DDDAF4B2B}" '
       'type="slidenum"><a:rPr lang="en-US"/><a:t>7</a:t></a:fld>')
ENDP = '<a:endParaRPr xmlns:a="http://schemas.openxmlformats.org/drawingml/2006/main" lang="en-US" dirty="0"/>'


def prior_state(rng, tf):
    """put a text frame into a seeded prior state; returns description"""
    from pptx.enum.text import PP_ALIGN
    from pptx.oxml import parse_xml

    kind = rng.choice(["fresh", "multi", "rich"])
    if kind == "fresh":
        return kind
    tf.text = rng.choice(["one", "one\ntwo", "x\vy\nz", "\n\n"])
    if kind == "rich":
        for p in tf.paragraphs:
            if rng.random() < 0.6:
                p.alignment = PP_ALIGN.CENTER
                p.level = 2
            if rng.random() < 0.5:
                p._p.append(parse_xml(FLD))
            if rng.random() < 0.5:
                p.add_run().text = "tail"
            if rng.random() < 0.5:
                p._p.append(parse_xml(ENDP))
    return kind


def skeleton(p):
    from pptx.oxml.ns import qn

    items = []
    for e in p:
        if e.tag == qn("a:r"):
            items.append("r" + enc(e.text))
        elif e.tag == qn("a:br"):
            items.append("b")
        elif e.tag == qn("a:fld"):
            items.append("f" + enc(e.text))
    return "%d%d" % (p.pPr is not None, p.endParaRPr is not None) + ",".join([""] + items)


def chart_text_frames(ctx):
    """the text frames of a chart (title, axis title) are text frames like any other: assigned text is the text read back,
    also when the title was looked at, switched off and on again before the assignment, and after save + re-open"""
    import io

    from pptx import Presentation
    from pptx.chart.data import CategoryChartData
    from pptx.enum.chart import XL_CHART_TYPE

    rng = ctx.rng
    patterns = [[], ["look", "off", "on"], ["look", "off"], ["text", "off", "on"], ["look", "look"], ["off"], ["on", "look", "text"]]
    fixed = [(w_, h_) for w_ in ("chart title", "value-axis title", "category-axis title") for h_ in patterns]
    for trial in range(len(fixed) + (6 if ctx.quick else 120)):
        prs = Presentation(); slide = prs.slides.add_slide(prs.slide_layouts[6])
        cd = CategoryChartData(); cd.categories = ["a", "b"]; cd.add_series("s", [1, 2])
        chart = slide.shapes.add_chart(XL_CHART_TYPE.COLUMN_CLUSTERED, 0, 0, 100, 100, cd).chart
        s = gen_str(rng)
        which = fixed[trial][0] if trial < len(fixed) else rng.choice(["chart title", "value-axis title", "category-axis title"])
        owner = chart if which == "chart title" else (chart.value_axis if which.startswith("value") else chart.category_axis)
        title_of = (lambda: owner.chart_title) if which == "chart title" else (lambda: owner.axis_title)
        hist = []
        for k in (fixed[trial][1] if trial < len(fixed) else [rng.choice(["look", "off", "on", "text"]) for _ in range(rng.randint(0, 4))]):
            hist.append(k)
            if k == "look":
                title_of().text_frame
            elif k == "off":
                owner.has_title = False
            elif k == "on":
                owner.has_title = True
            else:
                title_of().text_frame.text = "earlier"
        title_of().text_frame.text = s
        case = {"level": which, "string": s, "history": hist}
        ctx.case(key=("chart-text", which, s, tuple(hist)))
        want = expected("frame", s)
        got = title_of().text_frame.text
        if got != want:
            ctx.fail("chart-text:read-back", f"{which} after {hist}: assigned {s!r}, reads {got!r}, documented {want!r}", case)
            continue
        b = io.BytesIO(); prs.save(b)
        ch2 = [sh for sh in Presentation(io.BytesIO(b.getvalue())).slides[0].shapes if getattr(sh, "has_chart", False)][0].chart
        o2 = ch2 if which == "chart title" else (ch2.value_axis if which.startswith("value") else ch2.category_axis)
        got2 = (o2.chart_title if which == "chart title" else o2.axis_title).text_frame.text if o2.has_title else None
        if got2 != want:
            ctx.fail("chart-text:reopen", f"{which} after {hist}: assigned {s!r}; after save + re-open it reads {got2!r}", case)


class Case:
    pass


def correspond(ctx):
    from lxml import etree
    from pptx import Presentation
    from pptx.enum.shapes import MSO_SHAPE

    chart_text_frames(ctx)
    rng = ctx.rng
    n_total = 9000 if ctx.quick else 90000
    per_deck = 300
    lines, impl_now, metas = [], [], []
    done = 0
    while done < n_total:
        prs = Presentation()
        layout = prs.slide_layouts[6]
        cases = []
        slide = prs.slides.add_slide(layout)
        tbl = None
        for i in range(per_deck):
            if i % 60 == 0 and i:
                slide = prs.slides.add_slide(layout)
                tbl = None
                if (done // per_deck) % 2 == 0:
                    # the SAME Presentation object is saved in between (every other deck): what a later save writes is the
                    # text as it is then, not what an earlier save serialised
                    prs.save(io.BytesIO()); ctx.count("intermediate-saves-of-the-same-object")
            level = rng.choice(["frame", "shape", "cell", "para", "para", "run", "run"])
            s = gen_str(rng)
            c = Case()
            c.level, c.s = level, s
            if level == "cell":
                if tbl is None or rng.random() < 0.2:
                    tbl = slide.shapes.add_table(2, 2, 0, 0, 1000, 1000).table
                    c_tblshape = len(slide.shapes) - 1
                r_, c_ = rng.randrange(2), rng.randrange(2)
                cell = tbl.cell(r_, c_)
                c.prior = prior_state(rng, cell.text_frame)
                hist = rng.random()
                if hist < 0.1:
                    # the same string is already what the cell READS, put there at run level (one run holding the line feeds
                    # as characters): the cell-level assignment must still split it into paragraphs
                    cell.text_frame.text = ""
                    cell.text_frame.paragraphs[0].add_run().text = s
                    c.prior += "+same-string-at-run-level"
                elif hist < 0.15:
                    cell.text = s
                    c.prior += "+same-string-twice"
                cell.text = s
                c.loc = ("cell", prs.slides.index(slide), c_tblshape, r_, c_)
                tf = cell.text_frame
                c.read = cell.text
                c.skel = "|".join(skeleton(p._p) for p in tf.paragraphs)
                c.nbr = sum(len(p._p.findall("{http://schemas.openxmlformats.org/drawingml/2006/main}br")) for p in tf.paragraphs)
                line = f"c04.frame {enc(s)}"
                out = f"{enc(c.read)} {c.skel} {c.nbr}"
            else:
                if level == "shape":
                    shp = slide.shapes.add_shape(MSO_SHAPE.RECTANGLE, 0, 0, 100, 100)
                else:
                    shp = slide.shapes.add_textbox(0, 0, 100, 100)
                bodyless = rng.random() < 0.12
                if bodyless:
                    # a p:sp without a p:txBody (other producers omit it; so do picture/chart/table placeholders): the
                    # text frame is created on first access
                    shp._element.remove(shp._element.txBody)
                    ctx.count("shape-without-txBody")
                tf = shp.text_frame
                c.prior = prior_state(rng, tf) + ("+no-txBody" if bodyless else "")
                c.loc = ("shape", prs.slides.index(slide), len(slide.shapes) - 1)
                if level in ("frame", "shape"):
                    hist = rng.random()
                    if hist < 0.1:
                        tf.paragraphs[0].text = s       # the same string first at paragraph level
                        c.prior += "+same-string-at-paragraph-level"
                    elif hist < 0.15:
                        tf.text = s
                        c.prior += "+same-string-twice"
                    elif hist < 0.25:
                        tf.text = ""
                        tf.paragraphs[0].add_run().text = s   # run level keeps a line feed as a character
                        c.prior += "+same-string-at-run-level"
                    if level == "shape":
                        shp.text = s
                    else:
                        tf.text = s
                    c.read = tf.text
                    c.skel = "|".join(skeleton(p._p) for p in tf.paragraphs)
                    c.nbr = sum(len(p._p.findall("{http://schemas.openxmlformats.org/drawingml/2006/main}br")) for p in tf.paragraphs)
                    line = f"c04.frame {enc(s)}"
                    out = f"{enc(c.read)} {c.skel} {c.nbr}"
                elif level == "para":
                    k = rng.randrange(len(tf.paragraphs))
                    p = tf.paragraphs[k]
                    ppr_before = etree.tostring(p._p.pPr) if p._p.pPr is not None else None
                    others_before = [q.text for j, q in enumerate(tf.paragraphs) if j != k]
                    # cross-level history: the same string (or its reading) is already there, put there at ANOTHER level
                    hist = rng.random()
                    if hist < 0.12:
                        for r0 in list(p.runs):
                            p._p.remove(r0._r)
                        for b0 in p._p.findall("{http://schemas.openxmlformats.org/drawingml/2006/main}br"):
                            p._p.remove(b0)
                        p.add_run().text = s            # run level keeps a line feed as a character
                        c.prior += "+same-string-at-run-level"
                    elif hist < 0.2:
                        p.text = s
                        c.prior += "+same-string-twice"
                    has_ppr, has_end = p._p.pPr is not None, p._p.endParaRPr is not None
                    p.text = s
                    c.k = k
                    c.read = p.text
                    c.skel = skeleton(p._p)
                    ppr_after = etree.tostring(p._p.pPr) if p._p.pPr is not None else None
                    if ppr_before != ppr_after:
                        ctx.fail("para-props-changed", f"paragraph-level assignment of {s!r} changed a:pPr", {"level": level, "s": s, "prior": c.prior})
                    if others_before != [q.text for j, q in enumerate(tf.paragraphs) if j != k]:
                        ctx.fail("para-assign-touched-siblings", f"assignment to paragraph {k} changed other paragraphs", {"level": level, "s": s})
                    line = f"c04.para {int(has_ppr)} {int(has_end)} {enc(s)}"
                    out = f"{enc(c.read)} {c.skel}"
                else:
                    p = tf.paragraphs[rng.randrange(len(tf.paragraphs))]
                    c.k = list(tf.paragraphs).index(p) if False else [q._p for q in tf.paragraphs].index(p._p)
                    runs = p.runs
                    r = runs[rng.randrange(len(runs))] if runs and rng.random() < 0.7 else p.add_run()
                    c.ri = [x._r for x in p.runs].index(r._r)
                    r.text = s
                    c.read = r.text
                    line = f"c04.run {enc(s)}"
                    out = enc(c.read)
            want = expected(level, s)
            if c.read != want:
                ctx.fail(f"readback:{level}", f"{level}-level assignment of {s!r} reads back {c.read!r}, documented translation {want!r}",
                         {"level": level, "s": s, "prior": c.prior})
            if level in ("frame", "shape", "cell"):
                if len(tf.paragraphs) != s.count("\n") + 1:
                    ctx.fail("paragraph-count", f"{s!r}: {len(tf.paragraphs)} paragraphs", {"level": level, "s": s})
                if c.nbr != s.count("\v"):
                    ctx.fail("break-count", f"{s!r}: {c.nbr} a:br elements", {"level": level, "s": s})
            lines.append(line); impl_now.append(out); metas.append((level, s, c.prior))
            ctx.case(key=(level, s, c.prior))
            ctx.count("level-" + level); ctx.count("prior-" + c.prior)
            ctx.count("len-%02d" % min(len(s), 15))
            for ch, nm in (("\n", "has-LF"), ("\v", "has-VT"), ("\x07", "has-ctl"), ("<", "has-markup")):
                if ch in s:
                    ctx.count(nm)
            cases.append(c)
        # save / re-open cycles
        cycles = rng.choice([1, 1, 2, 3])
        cur = prs
        for cyc in range(cycles):
            buf = io.BytesIO()
            cur.save(buf)
            buf.seek(0)
            cur = Presentation(buf)
            ctx.count("reopen-cycles")
        slides = list(cur.slides)
        for c in cases:
            if c.loc[0] == "cell":
                _, si, shi, r_, c_ = c.loc
                tf = slides[si].shapes[shi].table.cell(r_, c_).text_frame
            else:
                _, si, shi = c.loc
                tf = slides[si].shapes[shi].text_frame
            # a later case on the same table cell may have overwritten an earlier one
            if c.level in ("frame", "shape", "cell"):
                got = tf.text
                gskel = "|".join(skeleton(p._p) for p in tf.paragraphs)
                if c.level == "cell":
                    later = [d for d in cases if d.loc == c.loc]
                    if later[-1] is not c:
                        continue
                if got != c.read or gskel != c.skel:
                    ctx.fail(f"reopen:{c.level}", f"{c.level}-level text {c.s!r}: read {c.read!r} before save, {got!r} after {cycles} save/re-open cycle(s)",
                             {"level": c.level, "s": c.s, "prior": c.prior, "cycles": cycles})
            elif c.k >= len(tf.paragraphs):
                ctx.fail(f"reopen:{c.level}", f"{c.level}-level text {c.s!r} was in paragraph {c.k}; the re-opened frame has {len(tf.paragraphs)} paragraph(s)",
                         {"level": c.level, "s": c.s, "prior": c.prior, "cycles": cycles})
            elif c.level == "para":
                p = tf.paragraphs[c.k]
                if p.text != c.read or skeleton(p._p) != c.skel:
                    ctx.fail("reopen:para", f"paragraph text {c.s!r}: {c.read!r} before save, {p.text!r} after re-open", {"level": "para", "s": c.s, "cycles": cycles})
            else:
                p = tf.paragraphs[c.k]
                rs = p.runs
                got = rs[c.ri].text if c.ri < len(rs) else None
                if got != c.read:
                    ctx.fail("reopen:run", f"run text {c.s!r}: {c.read!r} before save, {got!r} after {cycles} re-open cycle(s)", {"level": "run", "s": c.s, "cycles": cycles})
        done += per_deck
    ctx.sample({"line": lines[0], "level": metas[0][0], "s": metas[0][1], "impl": impl_now[0]})
    ctx.sample({"line": lines[7], "level": metas[7][0], "s": metas[7][1], "impl": impl_now[7]})
    model = ctx.driver.run(lines)
    for meta, i, m in zip(metas, impl_now, model):
        ctx.traces += 1
        if i != m:
            ctx.disagree(meta[0], {"s": meta[1], "prior": meta[2]}, i, m)


def search(ctx, hints):
    return


def replay(ctx, data):
    from pptx import Presentation

    bad = 0
    for f in data.get("failing_inputs_on_real_code", []):
        c = f["case"]
        prs = Presentation()
        tb = prs.slides.add_slide(prs.slide_layouts[6]).shapes.add_textbox(0, 0, 9, 9)
        tf = tb.text_frame
        if c["level"] == "run":
            r = tf.paragraphs[0].add_run(); r.text = c["s"]; before = r.text
        elif c["level"] == "para":
            tf.paragraphs[0].text = c["s"]; before = tf.paragraphs[0].text
        else:
            tf.text = c["s"]; before = tf.text
        buf = io.BytesIO(); prs.save(buf); buf.seek(0)
        tf2 = Presentation(buf).slides[0].shapes[0].text_frame
        after = tf2.paragraphs[0].runs[0].text if c["level"] == "run" and tf2.paragraphs[0].runs else (tf2.paragraphs[0].text if c["level"] == "para" else tf2.text)
        print(repr(c["s"]), "->", repr(before), "-> after re-open", repr(after), "| documented:", repr(expected(c["level"], c["s"])))
        bad += 1
    for d in data.get("correspondence_disagreements", []):
        print("model/impl disagreement:", d); bad += 1
    return 1 if bad else 0
