"""C18 — core document properties round-trip and stay valid."""
from __future__ import annotations

import datetime as dt
import io
import re
import zipfile

from lxml import etree

from harness import common
from harness.common import dec, enc

ID = "C18"
LEAN_MODULES = ["PptxModel.Props.C18"]
RULE = (
    "all 15 properties: the 11 text properties x seeded strings of length 0..256 over XML characters (boundary lengths "
    "254/255/256 forced, markup characters, astral code points); the 3 date properties x seeded naive datetimes over years "
    "1..9999 (years below 1000, leap days, end-of-month, microseconds) and wrong types; revision x positive / zero / "
    "negative / non-int; in seeded assignment orders, read back immediately and after 1..2 save/re-open cycles; reading of "
    "W3CDTF forms of every granularity with offsets over -14:00..+14:00 placed into docProps/core.xml of a real deck and "
    "compared with datetime arithmetic and with the model; a deck without core properties gains the default part on first "
    "access; the saved core.xml is checked against a transcription of opc-coreProperties.xsd.  Non-trivial = distinct case."
)
ASSUMPTIONS = [
    "tz-aware datetimes are outside the statement (strftime drops the offset); naive datetimes only",
    "opc-coreProperties.xsd cannot be compiled offline (it imports the Dublin Core schemas by URL): validity is judged by a "
    "transcription (xs:all: each child at most once; dcterms:created/modified carry xsi:type='dcterms:W3CDTF'; known element names)",
    "non-canonical W3CDTF spellings that strptime also accepts (single-digit fields) are not modelled",
]
TRUSTED = ["datetime/timedelta arithmetic as the independent oracle for offset handling"]

TEXT_PROPS = ["author", "category", "comments", "content_status", "identifier", "keywords", "language", "last_modified_by",
              "subject", "title", "version"]
DATE_PROPS = ["created", "last_printed", "modified"]
CP_NS = "http://schemas.openxmlformats.org/package/2006/metadata/core-properties"
DC = "http://purl.org/dc/elements/1.1/"
DCT = "http://purl.org/dc/terms/"
XSI = "http://www.w3.org/2001/XMLSchema-instance"
KNOWN = {f"{{{CP_NS}}}" + n for n in ("category", "contentStatus", "keywords", "lastModifiedBy", "lastPrinted", "revision", "version")} | \
        {f"{{{DC}}}" + n for n in ("creator", "description", "identifier", "language", "subject", "title")} | \
        {f"{{{DCT}}}" + n for n in ("created", "modified")}


def gen_text(rng):
    n = rng.choice([0, 1, 2, 10, 254, 255, 255, 256, 256, rng.randint(0, 256)])
    alpha = ["a", "Z", " ", "é", "&", "<", ">", '"', "\U0001F600", "\t", "x"]
    return "".join(rng.choice(alpha) for _ in range(n))


def gen_dt(rng):
    y = rng.choice([1, 2, 9, 10, 99, 100, 999, 1000, 1582, 1899, 1900, 1970, 2000, 2024, 9999, rng.randint(1, 9999)])
    mo = rng.randint(1, 12)
    last = 31 if mo in (1, 3, 5, 7, 8, 10, 12) else 30 if mo != 2 else (29 if (y % 4 == 0 and y % 100 != 0) or y % 400 == 0 else 28)
    d = rng.choice([1, last, rng.randint(1, last)])
    return dt.datetime(y, mo, d, rng.randint(0, 23), rng.randint(0, 59), rng.randint(0, 59), rng.choice([0, 0, 999999, 500000]))


def valid_core(xml_bytes):
    root = etree.fromstring(xml_bytes)
    problems = []
    if root.tag != f"{{{CP_NS}}}coreProperties":
        problems.append("root is not cp:coreProperties")
    seen = set()
    for ch in root:
        if ch.tag in seen:
            problems.append(f"element {ch.tag} occurs twice (xs:all)")
        seen.add(ch.tag)
        if ch.tag not in KNOWN:
            problems.append(f"unknown element {ch.tag}")
        if ch.tag in (f"{{{DCT}}}created", f"{{{DCT}}}modified"):
            if ch.get(f"{{{XSI}}}type") != "dcterms:W3CDTF":
                problems.append(f"{ch.tag} lacks xsi:type='dcterms:W3CDTF'")
            if ch.text and not re.fullmatch(r"\d{4}(-\d\d(-\d\d(T\d\d:\d\d(:\d\d(\.\d+)?)?(Z|[+-]\d\d:\d\d))?)?)?", ch.text):
                problems.append(f"{ch.tag} text {ch.text!r} is not W3CDTF")
        if len(ch):
            problems.append(f"{ch.tag} has element content")
    return problems


def reopen(prs):
    import warnings
    from pptx import Presentation

    b = io.BytesIO()
    with warnings.catch_warnings():
        # an "other-reltype" start deck keeps the producer's core.xml reachable beside the default part of the same name;
        # the library writes both (the values read back are the assigned ones - what this property is about)
        warnings.filterwarnings("ignore", "Duplicate name")
        prs.save(b)
    data = b.getvalue()
    return Presentation(io.BytesIO(data)), data


def with_core_xml(base, xml):
    zin = zipfile.ZipFile(io.BytesIO(base))
    out = io.BytesIO()
    with zipfile.ZipFile(out, "w", zipfile.ZIP_DEFLATED) as z:
        for it in zin.infolist():
            z.writestr(it, xml if it.filename == "docProps/core.xml" else zin.read(it.filename))
    return out.getvalue()


_BASE = []


def start_deck(ctx, rng):
    """the deck a history starts from, and what its core properties must read before anything is assigned: the default
    template, or the same package as other producers write its package relationships - an absolute Target for the
    core-properties relationship (System.IO.Packaging writers), or core.xml related under another relationship type (the
    ECMA-376 first-edition URI), which the library documents as 'no core properties': the default part on first access"""
    from pptx import Presentation

    if not _BASE:
        p = Presentation()
        p.core_properties.title = "Producer title"; p.core_properties.author = "Producer"; p.core_properties.revision = 41
        b = io.BytesIO(); p.save(b); _BASE.append(b.getvalue())
    kind = rng.choice(["template", "template", "absolute-target", "absolute-target", "other-reltype"])
    ctx.count("start-deck-" + kind)
    if kind == "template":
        return Presentation(), {}, kind
    zin = zipfile.ZipFile(io.BytesIO(_BASE[0]))
    out = io.BytesIO()
    with zipfile.ZipFile(out, "w", zipfile.ZIP_DEFLATED) as z:
        for it in zin.infolist():
            data = zin.read(it.filename)
            if it.filename == "_rels/.rels":
                if kind == "absolute-target":
                    data = data.replace(b'Target="docProps/core.xml"', b'Target="/docProps/core.xml"')
                    if rng.random() < 0.5:
                        data = data.replace(b'Target="docProps/app.xml"', b'Target="/docProps/app.xml"')
                else:
                    data = data.replace(b"/package/2006/relationships/metadata/core-properties", b"/officedocument/2006/relationships/metadata/core-properties")
                assert data != zin.read(it.filename)
            z.writestr(it, data)
    prs = Presentation(io.BytesIO(out.getvalue()))
    if kind == "absolute-target":
        return prs, {"title": "Producer title", "author": "Producer", "revision": 41}, kind
    return prs, {"title": "PowerPoint Presentation", "last_modified_by": "python-pptx", "revision": 1}, kind


def correspond(ctx):
    from pptx import Presentation

    rng = ctx.rng
    lines, impl, metas = [], [], []

    def add(line, out, meta):
        lines.append(line); impl.append(out); metas.append(meta)
        ctx.case(key=line)

    n_hist = 25 if ctx.quick else 400
    for _ in range(n_hist):
        prs, expect, start = start_deck(ctx, rng)
        cp = prs.core_properties
        for k, v in expect.items():
            if getattr(cp, k) != v:
                ctx.fail("start-deck-read:" + start, f"a deck whose core properties ({start}) hold {k} = {v!r} reads {getattr(cp, k)!r}", {"prop": k, "start": start})
        for _ in range(rng.randint(3, 12)):
            kind = rng.random()
            if kind < 0.55:
                name = rng.choice(TEXT_PROPS)
                s = gen_text(rng)
                try:
                    setattr(cp, name, s)
                    out = "ok"
                    expect[name] = s
                except ValueError:
                    out = "err"
                add(f"c18.text {enc(s)}", out, ("text", name, len(s)))
                ctx.count("text-len-%s" % ("256" if len(s) == 256 else "255" if len(s) == 255 else "other"))
                if (len(s) <= 255) != (out == "ok"):
                    ctx.fail("text-255-rule", f"{name}: string of length {len(s)} -> {out}", {"prop": name, "len": len(s)})
                if out == "ok" and getattr(cp, name) != s:
                    ctx.fail("text-readback", f"{name}: assigned {s!r:.60}, read {getattr(cp, name)!r:.60}", {"prop": name, "value": s})
                if out == "err" and name in expect and getattr(cp, name) != expect[name]:
                    ctx.fail("rejected-text-changed-value", f"{name} changed although the assignment raised", {"prop": name})
            elif kind < 0.85:
                name = rng.choice(DATE_PROPS)
                if rng.random() < 0.1:
                    bad = rng.choice(["2020-01-01", 5, None, dt.date(2020, 1, 1)])
                    try:
                        setattr(cp, name, bad)
                        ctx.fail("date-accepts-non-datetime", f"{name} accepted {bad!r}", {"prop": name})
                    except ValueError:
                        ctx.count("date-rejected-wrong-type")
                    continue
                v = gen_dt(rng)
                if rng.random() < 0.3:
                    # a datetime carrying a UTC offset: the same INSTANT is stored (and read back as naive UTC)
                    off = rng.choice([0, 60, -60, 120, 330, -570, 14 * 60, -14 * 60, rng.randint(-14 * 60, 14 * 60)])
                    if rng.random() < 0.2:
                        # the two ends of the calendar, pushed over by the offset
                        v, off = rng.choice([(dt.datetime(1, 1, 1, 0, 0, 0), 14 * 60), (dt.datetime(1, 1, 1, 5, 30, 0), 330 + 1),
                                             (dt.datetime(9999, 12, 31, 23, 59, 59), -14 * 60), (dt.datetime(9999, 12, 31, 12, 0, 0), -12 * 60 - 1)])
                    v = v.replace(tzinfo=dt.timezone(dt.timedelta(minutes=off)))
                    try:
                        want = v.astimezone(dt.timezone.utc).replace(tzinfo=None, microsecond=0)
                    except OverflowError:
                        want = None
                    xml_before = etree.tostring(cp._element)
                    try:
                        setattr(cp, name, v)
                        outcome = "ok"
                    except ValueError:
                        outcome = "ValueError"
                    except Exception as e:  # noqa
                        outcome = type(e).__name__
                    ctx.count("date-with-utc-offset")
                    el = {"created": cp._element.created, "last_printed": cp._element.lastPrinted, "modified": cp._element.modified}[name]
                    add(f"c18.fmtaware {v.year} {v.month} {v.day} {v.hour} {v.minute} {v.second} {off}",
                        enc(el.text) if outcome == "ok" else ("overflow" if outcome == "ValueError" else outcome), ("fmtaware", name, str(v)))
                    if outcome != "ok" and etree.tostring(cp._element) != xml_before:
                        ctx.fail("rejected-date-changed-xml", f"{name} = {v!r} raised {outcome} but the core-properties part changed: "
                                 f"{etree.tostring(cp._element)[-160:]!r}", {"prop": name, "value": str(v)})
                    if want is None:
                        if outcome != "ValueError":
                            ctx.fail("date-aware-out-of-range", f"{name} = {v!r} (outside years 1..9999 as UTC): {outcome}, expected ValueError", {"prop": name, "value": str(v)})
                        if name in expect and getattr(cp, name) != expect[name]:
                            ctx.fail("rejected-date-changed-value", f"{name} changed although the assignment raised", {"prop": name})
                        continue
                    if outcome != "ok":
                        ctx.fail("date-aware-rejected", f"{name} = {v!r} raised {outcome}", {"prop": name, "value": str(v)})
                        continue
                    expect[name] = want
                    got = getattr(cp, name)
                    if got != want:
                        ctx.fail("date-readback:utc-offset", f"{name} = {v!r} (the instant {want!r} UTC) reads back {got!r} (stored {el.text!r})", {"prop": name, "value": str(v)})
                    continue
                setattr(cp, name, v)
                want = v.replace(microsecond=0)
                expect[name] = want
                el = {"created": cp._element.created, "last_printed": cp._element.lastPrinted, "modified": cp._element.modified}[name]
                add(f"c18.fmt {v.year} {v.month} {v.day} {v.hour} {v.minute} {v.second}", enc(el.text), ("fmt", name, str(v)))
                got = getattr(cp, name)
                ctx.count("date-year-%s" % ("<1000" if v.year < 1000 else ">=1000"))
                if got != want:
                    ctx.fail("date-readback" + (":year<1000" if v.year < 1000 else ""), f"{name} = {v!r} reads back {got!r} (stored {el.text!r})", {"prop": name, "value": str(v)})
            else:
                from pptx.enum.text import MSO_ANCHOR
                from pptx.util import Emu
                v = rng.choice([1, 2, 7, 10**6, 0, -1, "3", 2.0, None, True, False, 2**31, 10**30, MSO_ANCHOR.MIDDLE, Emu(5)])
                try:
                    cp.revision = v
                    ok = True
                    expect["revision"] = v
                except ValueError:
                    ok = False
                if ok != (isinstance(v, int) and not isinstance(v, bool) and v >= 1):
                    ctx.fail("revision-domain", f"revision = {v!r} -> {'accepted' if ok else 'rejected'}", {"value": repr(v)})
                if ok and cp.revision != v:
                    ctx.fail("revision-readback", f"revision = {v!r} reads {cp.revision!r}", {"value": repr(v)})
                if not ok and isinstance(v, int) and not isinstance(v, bool):
                    add(f"c18.wrev {int(v)}", "refused", ("revision", "revision", str(v)))
                if ok:
                    add(f"c18.wrev {int(v)}", enc(cp._element.revision.text or ""), ("revision", "revision", str(v)))
        cur = prs
        for cyc in range(rng.choice([1, 1, 2])):
            cur, data = reopen(cur)
            ctx.count("reopen-cycles")
            cp2 = cur.core_properties
            for k, v in expect.items():
                if getattr(cp2, k) != v:
                    ctx.fail("reopen-differs", f"{k}: {v!r:.60} before save, {getattr(cp2, k)!r:.60} after {cyc + 1} save/re-open cycle(s)", {"prop": k})
            core = zipfile.ZipFile(io.BytesIO(data)).read("docProps/core.xml")
            for pr in valid_core(core):
                ctx.fail("core-xml-invalid", f"docProps/core.xml: {pr}", {"xml": core.decode()[:400]})
    # reading W3CDTF forms
    base = io.BytesIO(); Presentation().save(base); base = base.getvalue()
    n_read = 60 if ctx.quick else 1500
    for _ in range(n_read):
        forms = []
        for name in DATE_PROPS:
            v = gen_dt(rng).replace(microsecond=0)
            g = rng.random()
            if v.year < 1000 and rng.random() < 0.7:
                v = v.replace(year=rng.randint(1000, 9999), day=min(v.day, 28))
            if g < 0.15:
                s, want = "%04d" % v.year, dt.datetime(v.year, 1, 1)
            elif g < 0.3:
                s, want = "%04d-%02d" % (v.year, v.month), dt.datetime(v.year, v.month, 1)
            elif g < 0.45:
                s, want = v.strftime("%04d-%%m-%%d" % v.year), dt.datetime(v.year, v.month, v.day)
            elif g < 0.6:
                s, want = "%04d-%02d-%02dT%02d:%02d:%02dZ" % (v.year, v.month, v.day, v.hour, v.minute, v.second), v
            else:
                oh, om = rng.randint(0, 14), rng.choice([0, 0, 30, 45, 1, 59])
                if oh == 14:
                    om = 0
                sign = rng.choice("+-")
                s = "%04d-%02d-%02dT%02d:%02d:%02d%s%02d:%02d" % (v.year, v.month, v.day, v.hour, v.minute, v.second, sign, oh, om)
                try:
                    want = v - dt.timedelta(hours=oh, minutes=om) if sign == "+" else v + dt.timedelta(hours=oh, minutes=om)
                except OverflowError:
                    want = "overflow"
            forms.append((name, s, want))
        xml = (f'<cp:coreProperties xmlns:cp="{CP_NS}" xmlns:dc="{DC}" xmlns:dcterms="{DCT}" xmlns:xsi="{XSI}">'
               f'<dcterms:created xsi:type="dcterms:W3CDTF">{forms[0][1]}</dcterms:created>'
               f'<cp:lastPrinted>{forms[1][1]}</cp:lastPrinted>'
               f'<dcterms:modified xsi:type="dcterms:W3CDTF">{forms[2][1]}</dcterms:modified></cp:coreProperties>').encode()
        cp = Presentation(io.BytesIO(with_core_xml(base, xml))).core_properties
        for name, s, want in forms:
            try:
                got = getattr(cp, name)
            except OverflowError:
                got = "overflow"
            ctx.count("read-form-" + ("offset" if len(s) == 25 else "Z" if s.endswith("Z") else "len%d" % len(s)))
            if got != want:
                ctx.fail("w3cdtf-read", f"{name}: {s!r} read as {got!r}, equivalent UTC time is {want!r}", {"prop": name, "text": s})
            out = "overflow" if got == "overflow" else "none" if got is None else "ok %d %d %d %d %d %d" % (got.year, got.month, got.day, got.hour, got.minute, got.second)
            add(f"c18.read {enc(s)}", out, ("read", name, s))
    # default part on first access
    zin = zipfile.ZipFile(io.BytesIO(base))
    out = io.BytesIO()
    with zipfile.ZipFile(out, "w") as z:
        for it in zin.infolist():
            if it.filename == "docProps/core.xml":
                continue
            data = zin.read(it.filename)
            if it.filename == "_rels/.rels":
                data = re.sub(rb'<Relationship [^>]*core-properties[^>]*/>', b"", data)
            z.writestr(it, data)
    prs = Presentation(io.BytesIO(out.getvalue()))
    ctx.case(key="default-part")
    cp = prs.core_properties
    if cp.title != "PowerPoint Presentation" or cp.last_modified_by != "python-pptx" or cp.revision != 1 or cp.modified is None:
        ctx.fail("default-core-properties", "a deck without core properties did not gain the documented default part", {})
    p2, data = reopen(prs)
    if "docProps/core.xml" not in zipfile.ZipFile(io.BytesIO(data)).namelist() or p2.core_properties.title != "PowerPoint Presentation":
        ctx.fail("default-core-properties-not-saved", "default core properties part is not in the saved package", {})
    # two packages without core properties in one process: each gains ITS OWN default part
    nocore = out.getvalue()
    a = Presentation(io.BytesIO(nocore)); b_ = None
    a.core_properties.author = "author of A"; a.core_properties.title = "title of A"
    b_ = Presentation(io.BytesIO(nocore))
    bt = b_.core_properties.title
    b_.core_properties.author = "author of B"
    ctx.case(key="two-default-parts")
    if a.core_properties.author != "author of A" or a.core_properties.title != "title of A" or bt != "PowerPoint Presentation":
        ctx.fail("default-core-properties-shared", f"two decks without core properties influence each other: A author={a.core_properties.author!r} title={a.core_properties.title!r}, B title on first access={bt!r}", {})
    res = ctx.driver.run(lines)
    for meta, i, m in zip(metas, impl, res):
        ctx.traces += 1
        if i != m:
            ctx.disagree(meta[0], {"meta": meta}, dec(i) if meta[0] == "fmt" else i, dec(m) if meta[0] == "fmt" and m not in ("bad-op",) else m)
    ctx.sample({"line": lines[0][:200], "impl": impl[0][:80], "meta": metas[0]})
    rd = [i for i, m in enumerate(metas) if m[0] == "read"]
    if rd:
        ctx.sample({"read": metas[rd[0]][2], "impl": impl[rd[0]]})


def search(ctx, hints):
    return


def replay(ctx, data):
    for f in data.get("failing_inputs_on_real_code", []):
        print(f["what"][:400])
    for d in data.get("correspondence_disagreements", []):
        print("model/impl disagreement:", str(d)[:400])
    return 1
