"""C15 — images are stored once, byte-exact, with the type and size of the actual image."""
from __future__ import annotations

import hashlib
import io
import re
import zipfile
from fractions import Fraction

from harness import common
from harness.common import dec, enc

ID = "C15"
LEAN_MODULES = ["PptxModel.Props.C15"]
RULE = (
    "images GENERATED in the harness with Pillow: PNG/JPEG/GIF/BMP/TIFF, sizes 1..40 px, DPI absent / integral / fractional / "
    "0 / huge / non-square; misleading file names (foo.jpg holding a PNG, upper-case, no extension); seeded histories of "
    "3..20 additions across slides from paths and streams - plain pictures, picture placeholders, movie poster frames, "
    "OLE icons - with repeats and interleaving, saves and re-opens in between; sizes given as none / width only / height "
    "only / both / zero.  Observed after each addition: the part name/extension/content type of the image part used, "
    "the picture size; at each save: ppt/media members and their bytes, content-type entries, picture.image.blob.  "
    "Non-trivial = distinct history."
)
ASSUMPTIONS = [
    "format / pixel size / DPI sniffing is Pillow's (runtime); the model takes what Pillow reports as input",
    "SHA-1 is collision-free on the generated images (the theorem's stated hypothesis)",
    "float division in _native_size and scale(): exact-floor / exact-rounding agreement is argued (quotients are >= 1/2048 "
    "away from an integer unless integral) and sampled; a half-way rounding case within 1 EMU is recorded as float artefact",
]
TRUSTED = ["Pillow image writers used to generate the inputs"]

EXT = {"PNG": "png", "JPEG": "jpg", "GIF": "gif", "BMP": "bmp", "TIFF": "tiff"}
CT = {"PNG": "image/png", "JPEG": "image/jpeg", "GIF": "image/gif", "BMP": "image/bmp", "TIFF": "image/tiff"}


def make_image(rng):
    from PIL import Image

    fmt = rng.choice(["PNG", "PNG", "JPEG", "JPEG", "GIF", "BMP", "TIFF"])
    w, h = rng.randint(1, 40), rng.randint(1, 40)
    img = Image.new("RGB", (w, h), (rng.randrange(256), rng.randrange(256), rng.randrange(256)))
    if fmt == "GIF":
        img = img.convert("P")
    kw = {}
    dpi_kind = rng.choice(["absent", "int", "frac", "zero", "huge", "nonsquare", "one", "mixed1", "mixed2", "mixed3", "odd"])
    if dpi_kind != "absent" and fmt != "GIF":
        d = {"int": (96, 96), "frac": (72.5, 299.99), "zero": (0, 0), "huge": (5000, 100000), "nonsquare": (150, 300), "one": (1, 2048),
             "mixed1": (0, 300), "mixed2": (3000, 150), "mixed3": (200, 5000), "odd": (220, 7)}[dpi_kind]
        if fmt == "BMP" and dpi_kind in ("zero",):
            d = (1, 1)
        kw["dpi"] = d
    b = io.BytesIO()
    try:
        img.save(b, fmt, **kw)
    except Exception:  # noqa
        b = io.BytesIO(); img.save(b, fmt)
    return b.getvalue(), fmt, dpi_kind


def pil_props(blob):
    from PIL import Image

    im = Image.open(io.BytesIO(blob))
    return im.format, im.size, im.info.get("dpi")


def int_dpi_oracle(v):
    try:
        r = int(round(float(v)))
    except (TypeError, ValueError):
        return 72
    return 72 if r < 1 or r > 2048 else r


def correspond(ctx):
    from pptx import Presentation

    rng = ctx.rng
    tmp = common.scratch() / "c15"
    tmp.mkdir(parents=True, exist_ok=True)
    lines, impl, metas = [], [], []

    def add(line, out, meta):
        lines.append(line); impl.append(out); metas.append(meta); ctx.case(key=line)

    n_hist = 40 if ctx.quick else 600
    for hi in range(n_hist):
        many = hi % 4 == 3   # every fourth history holds 10+ distinct images (index 10 sorts before 2 as a string)
        pool = [make_image(rng) for _ in range(rng.randint(11, 14) if many else rng.randint(1, 5))]
        blob_id = {}
        prs = Presentation()
        slides = [prs.slides.add_slide(prs.slide_layouts[6]) for _ in range(rng.randint(1, 3))]
        adds, outs = [], []
        expected_blobs = {}
        pics = []
        pre = []
        if rng.random() < 0.35:
            # a start deck from another producer: image parts whose numbers are shared between extensions, start at 0 or
            # leave gaps (the library's own numbering never produces these)
            from pptx.opc.packuri import PackURI
            taken = set()
            for _k in range(rng.randint(2, 5)):
                pb, pf, _dk = make_image(rng)
                if pb in blob_id or any(pb == x[0] for x in pool):
                    continue
                blob_id[pb] = len(blob_id) + 1
                pic = slides[0].shapes.add_picture(io.BytesIO(pb), 0, 0)
                part = pic.part.related_part(pic._pic.blip_rId)
                idx = rng.choice([0, 1, 1, 2, 2, 3, 5, 9])
                while (idx, part.partname.ext) in taken:
                    idx += 1
                taken.add((idx, part.partname.ext))
                part.partname = PackURI("/ppt/media/image%d.%s" % (idx, part.partname.ext))
                pre.append((idx, part.partname.ext, blob_id[pb]))
                expected_blobs[str(part.partname)] = pb
            b0 = io.BytesIO(); prs.save(b0)
            prs = Presentation(io.BytesIO(b0.getvalue()))
            slides = list(prs.slides)
            ctx.count("foreign-image-numbering-start-decks")
        nsteps = rng.randint(3, 20)
        order = list(range(len(pool))) if many else []
        for step in range(nsteps + len(order)):
            blob, fmt, dk = pool[order.pop(0)] if order else rng.choice(pool)
            bid = blob_id.setdefault(blob, len(blob_id) + 1)
            slide = rng.choice(slides)
            how = rng.choice(["stream", "path", "path-misleading", "placeholder", "poster", "ole-icon"])
            if how == "stream":
                # a third of the streams have been used before (the caller's own read, an earlier add_picture with the
                # same object): the cursor is at the end, or somewhere in the middle
                src = io.BytesIO(blob)
                x = rng.random()
                if x < 0.2:
                    src.read(); ctx.count("stream-cursor-at-end")
                elif x < 0.33:
                    src.seek(min(7, len(blob))); ctx.count("stream-cursor-in-the-middle")
            else:
                name = rng.choice(["pic", "IMG", "photo.final", "x"]) + rng.choice(["." + EXT[fmt], ".jpg", ".PNG", ".dat", ""])
                p = tmp / name
                p.write_bytes(blob)
                src = str(p)
            iw = ih = None
            try:
                if how in ("stream", "path", "path-misleading"):
                    mode = rng.choice(["none", "w", "h", "both", "zero"])
                    cx = cy = None
                    if mode == "w":
                        cx = rng.choice([1, 7, 1000, 914400, 3333333])
                    elif mode == "h":
                        cy = rng.choice([1, 9, 1000, 914400, 2222222])
                    elif mode == "both":
                        cx, cy = rng.randint(1, 10**6), rng.randint(1, 10**6)
                    elif mode == "zero":
                        cx, cy = rng.choice([(0, None), (0, 0), (0, 5000), (1777, 0), (None, 0)])
                    pic = slide.shapes.add_picture(src, 10, 20, cx, cy)
                    fmt_, (pw, ph_), dpi = pil_props(blob)
                    hd, vd = (int_dpi_oracle(dpi[0]), int_dpi_oracle(dpi[1])) if isinstance(dpi, tuple) else (72, 72)
                    nw, nh = 914400 * pw // hd, 914400 * ph_ // vd
                    add(f"c15.native {pw} {hd}", str(nw), ("native", bid)); add(f"c15.native {ph_} {vd}", str(nh), ("native", bid))
                    if isinstance(dpi, tuple):
                        for comp in dpi:
                            try:
                                fr = Fraction(float(comp))
                                add(f"c15.dpi {fr.numerator} {fr.denominator}", str(int_dpi_oracle(comp)), ("dpi", repr(comp)))
                            except (TypeError, ValueError, OverflowError):
                                pass
                    add(f"c15.scale {nw} {nh} {'none' if cx is None else cx} {'none' if cy is None else cy}", f"{pic.width} {pic.height}", ("scale", mode, bid))
                    ctx.count("size-mode-" + mode); ctx.count("dpi-" + dk)
                    # L2: a dimension that was given is the dimension the picture has (0 is a size, None is "not given")
                    if (cx is not None and pic.width != cx) or (cy is not None and pic.height != cy):
                        ctx.fail("given-size", f"add_picture(..., width={cx}, height={cy}) gave a picture of {pic.width}x{pic.height} EMU", {"fmt": fmt, "cx": cx, "cy": cy})
                    # L2: native size / aspect
                    if mode == "none" and (pic.width, pic.height) != (nw, nh):
                        ctx.fail("native-size", f"{fmt} {pw}x{ph_}px dpi={dpi}: picture is {pic.width}x{pic.height} EMU, native size is {nw}x{nh}", {"fmt": fmt, "px": (pw, ph_), "dpi": str(dpi)})
                    if mode == "w" and nw > 0 and abs(pic.height * nw - nh * cx) * 2 > nw + 2 * nw // 10**6 + 2:
                        ctx.fail("aspect-ratio", f"width {cx} given: height {pic.height} does not preserve {nw}x{nh}", {"fmt": fmt, "cx": cx})
                    if mode == "h" and nh > 0 and abs(pic.width * nh - nw * cy) * 2 > nh + 2:
                        ctx.fail("aspect-ratio", f"height {cy} given: width {pic.width} does not preserve {nw}x{nh}", {"fmt": fmt, "cy": cy})
                    part = pic.part.related_part(pic._pic.blip_rId)
                    pics.append((pic, blob))
                elif how == "placeholder":
                    sl = prs.slides.add_slide(prs.slide_layouts[8]); slides.append(sl)
                    ph = [p_ for p_ in sl.placeholders if "PICTURE" in str(p_.placeholder_format.type)][0]
                    pic = ph.insert_picture(src)
                    part = pic.part.related_part(pic._pic.blip_rId)
                    pics.append((pic, blob))
                elif how == "poster":
                    mv = slide.shapes.add_movie(io.BytesIO(b"movie%d" % rng.randint(0, 3)), 0, 0, 10, 10, poster_frame_image=src, mime_type="video/mp4")
                    part = mv.part.related_part(mv._element.blip_rId)
                else:
                    gf = slide.shapes.add_ole_object(io.BytesIO(b"ole%d" % rng.randint(0, 3)), "Custom.ProgId", 0, 0, 10, 10, icon_file=src)
                    rid = gf._element.xpath(".//a:blip/@r:embed")[0]
                    part = gf.part.related_part(rid)
            except Exception as e:  # noqa
                ctx.fail("add-image-raises:" + how, f"{how} with {fmt} image ({dk} dpi) raised {type(e).__name__}: {str(e)[:120]}", {"fmt": fmt, "how": how})
                continue
            ctx.count("how-" + how); ctx.count("fmt-" + fmt)
            adds.append(f"{bid}:{fmt}")
            outs.append(f"{part.partname.idx}.{enc(part.partname.ext)}.{enc(part.content_type)}")
            expected_blobs[str(part.partname)] = blob
            if part.blob != blob:
                ctx.fail("blob-not-exact", f"image part {part.partname} does not hold the input bytes", {"fmt": fmt})
            if part.partname.ext != EXT[fmt] or part.content_type != CT[fmt]:
                ctx.fail("type-from-filename", f"{fmt} image stored as {part.partname} / {part.content_type}", {"fmt": fmt, "how": how})
            if rng.random() < 0.15 and pics:
                # save + re-open in between: the same bytes must still be found and re-used
                b = io.BytesIO(); prs.save(b)
                check_zip(ctx, b.getvalue(), expected_blobs, blob_id)
        pre_s = ",".join(f"{i}:{enc(e)}:{b_}" for i, e, b_ in pre) or "!"
        add(f"c15.store {pre_s} {','.join(adds) or '!'}", ",".join(outs), ("store", hi))
        b = io.BytesIO(); prs.save(b)
        check_zip(ctx, b.getvalue(), expected_blobs, blob_id)
        for pic, blob in pics:
            if pic.image.blob != blob:
                ctx.fail("picture-image-blob", "picture.image.blob differs from the bytes added", {})
        # continue on the re-opened deck: same images must be found, new ones get fresh names
        re_ = Presentation(io.BytesIO(b.getvalue()))
        sl = re_.slides[0]
        before = {n for n in zipfile.ZipFile(io.BytesIO(b.getvalue())).namelist() if n.startswith("ppt/media/image")}
        blob, fmt, dk = rng.choice(pool)
        sl.shapes.add_picture(io.BytesIO(blob), 0, 0)
        nb, nfmt, _ = make_image(rng)
        sl.shapes.add_picture(io.BytesIO(nb), 0, 0)
        if rng.random() < 0.5:
            # the library's own default icon (an EMF that Pillow reports as WMF): once before, once after another re-open
            from pptx.enum.shapes import PROG_ID
            sl.shapes.add_ole_object(io.BytesIO(b"ole-a"), PROG_ID.XLSX, 0, 0)
            bb = io.BytesIO(); re_.save(bb)
            re_ = Presentation(io.BytesIO(bb.getvalue()))
            re_.slides[0].shapes.add_ole_object(io.BytesIO(b"ole-b"), PROG_ID.XLSX, 0, 0)
            ctx.count("default-ole-icon-across-reopen")
        b2 = io.BytesIO(); re_.save(b2)
        z2 = zipfile.ZipFile(io.BytesIO(b2.getvalue()))
        media = [n for n in z2.namelist() if n.startswith("ppt/media/image")]
        shas = [hashlib.sha1(z2.read(n)).hexdigest() for n in media]
        if len(set(shas)) != len(shas):
            ctx.fail("stored-twice-after-reopen", f"after re-open the same bytes were stored again: {media}", {"fmt": fmt})
        ctx.count("reopen-continue")
    dropped_relationship_slides(ctx, rng)
    image_reached_only_through_another_part(ctx, rng)
    res = ctx.driver.run(lines)
    for meta, i, m in zip(metas, impl, res):
        ctx.traces += 1
        if i != m:
            if meta[0] == "scale":
                a, b = [int(x) for x in i.split()], [int(x) for x in m.split()]
                if all(abs(x - y) <= 1 for x, y in zip(a, b)):
                    ctx.count("scale-float-artefact-within-1emu")
                    continue
            ctx.disagree(meta[0], {"meta": meta}, i, m)
    ctx.sample({"line": lines[-1][:300], "impl": impl[-1][:200]})
    sc = [i for i, m in enumerate(metas) if m[0] == "scale"]
    if sc:
        ctx.sample({"line": lines[sc[0]], "impl": impl[sc[0]]})


def distinct_images(rng, n, seen=()):
    out, have = [], set(seen)
    while len(out) < n:
        b, fmt, _dk = make_image(rng)
        if b not in have:
            have.add(b); out.append((b, fmt))
    return out


def dropped_relationship_slides(ctx, rng):
    """one slide holding ten and more relationships, some of which are dropped again in between (a hyperlink that is
    cleared), pictures added before and after, with and without a save / re-open in between: every picture still shows
    the bytes it was given, every blob is stored once"""
    from pptx import Presentation

    for trial in range(8 if ctx.quick else 120):
        prs = Presentation()
        slide = prs.slides.add_slide(prs.slide_layouts[6])
        imgs = distinct_images(rng, rng.randint(10, 15))
        links, pics, hist = [], [], []
        todo = list(imgs)
        n_links = rng.randint(1, 3)
        drop_after = rng.randint(len(imgs) - 4, len(imgs) - 1)   # pictures placed when a link is cleared (10+ relationships by then)
        for k in range(len(imgs)):
            if len(links) < n_links and rng.random() < 0.5 or (k == 0 and trial % 2 == 0):
                r = slide.shapes.add_textbox(0, 0, 99, 99).text_frame.paragraphs[0].add_run()
                r.text = "link"; r.hyperlink.address = "http://example.com/%d" % len(links)
                links.append(r); hist.append("link")
            if k == drop_after and links:
                r = links.pop(rng.randrange(len(links)))
                r.hyperlink.address = None
                hist.append("link-cleared"); ctx.count("dropped-relationship")
                if rng.random() < 0.3:
                    b = io.BytesIO(); prs.save(b)
                    prs2 = Presentation(io.BytesIO(b.getvalue()))
                    slide = prs2.slides[0]
                    by_name = {p.name: p for p in slide.shapes if p.shape_type is not None and hasattr(p, "image")}
                    pics = [(by_name[p.name], blob) for p, blob in pics]
                    links = []
                    prs = prs2; hist.append("re-open")
            blob, fmt = todo.pop(0)
            pic = slide.shapes.add_picture(io.BytesIO(blob), 0, 0)
            pic.name = "pic-%d" % k
            pics.append((pic, blob)); hist.append("picture")
        case = {"kind": "dropped-relationship", "history": hist}
        ctx.case(key=("dropped-relationship", tuple(hist))); ctx.count("dropped-relationship-histories")
        bad = [p.name for p, blob in pics if p.image.blob != blob]
        if bad:
            ctx.fail("picture-image-blob", f"after history {hist} pictures {bad} no longer show the bytes they were added with "
                     f"(relationship ids on the slide: {sorted(slide.part.rels)})", case)
        b = io.BytesIO(); prs.save(b)
        z = zipfile.ZipFile(io.BytesIO(b.getvalue()))
        media = [z.read(n) for n in z.namelist() if n.startswith("ppt/media/image")]
        if sorted(media) != sorted(blob for blob, _ in imgs):
            ctx.fail("stored-media-differ", f"after history {hist} the saved media parts are not exactly the {len(imgs)} images added, once each ({len(media)} stored)", case)
        re_ = Presentation(io.BytesIO(b.getvalue()))
        shown = {p.name: p.image.blob for p in re_.slides[0].shapes if hasattr(p, "image")}
        bad = [p.name for p, blob in pics if shown.get(p.name) != blob]
        if bad:
            ctx.fail("picture-image-blob", f"after history {hist}, save and re-open, pictures {bad} no longer show the bytes they were added with", case)


def image_reached_only_through_another_part(ctx, rng):
    """a start deck from another producer whose image parts are related only from a part the library has no class of
    its own for (a picture fill in the theme, an icon of a VML drawing): new bytes get a name not in use, the bytes already
    there are found and not stored twice, and the producer's image survives the save"""
    import re as _re
    from pptx import Presentation

    for trial in range(6 if ctx.quick else 60):
        prs = Presentation()
        prs.slides.add_slide(prs.slide_layouts[6])
        b0 = io.BytesIO(); prs.save(b0)
        z = zipfile.ZipFile(io.BytesIO(b0.getvalue()))
        theme = [n for n in z.namelist() if _re.fullmatch(r"ppt/theme/theme\d+\.xml", n)][0]
        there = distinct_images(rng, rng.randint(1, 3))
        names, rel_xml = {}, []
        for k, (blob, fmt) in enumerate(there):
            n = "ppt/media/image%d.%s" % (rng.choice([1, 1, 2, 3]) + 3 * k, EXT[fmt])
            names[n] = blob
            rel_xml.append(f'<Relationship Id="rId{k + 1}" Type="http://schemas.openxmlformats.org/officeDocument/2006/relationships/image" Target="../media/{n.split("/")[-1]}"/>')
        out = io.BytesIO()
        with zipfile.ZipFile(out, "w", zipfile.ZIP_DEFLATED) as zo:
            for n in z.namelist():
                data = z.read(n)
                if n == "[Content_Types].xml":
                    ct = data.decode()
                    for ext, typ in (("png", "image/png"), ("jpg", "image/jpeg"), ("gif", "image/gif"), ("bmp", "image/bmp"), ("tiff", "image/tiff")):
                        if 'Extension="%s"' % ext not in ct:
                            ct = ct.replace("<Default ", f'<Default Extension="{ext}" ContentType="{typ}"/><Default ', 1)
                    data = ct.encode()
                zo.writestr(n, data)
            for n, blob in names.items():
                zo.writestr(n, blob)
            d, f = theme.rsplit("/", 1)
            zo.writestr(f"{d}/_rels/{f}.rels", '<?xml version="1.0" encoding="UTF-8" standalone="yes"?><Relationships xmlns="http://schemas.openxmlformats.org/package/2006/relationships">'
                        + "".join(rel_xml) + "</Relationships>")
        prs = Presentation(io.BytesIO(out.getvalue()))
        slide = prs.slides[0]
        new = distinct_images(rng, rng.randint(1, 3), seen=[b for b, _ in there])
        seq = [(b, f, "new") for b, f in new] + [(b, f, "already-there") for b, f in there if rng.random() < 0.7]
        rng.shuffle(seq)
        case = {"kind": "image-through-theme", "there": sorted(names), "adds": [w for _, _, w in seq]}
        ctx.case(key=("image-through-theme", tuple(sorted(names)), tuple(w for _, _, w in seq))); ctx.count("image-through-another-part-decks")
        pics = []
        for blob, fmt, what in seq:
            pic = slide.shapes.add_picture(io.BytesIO(blob), 0, 0)
            part = pic.part.related_part(pic._pic.blip_rId)
            pics.append((pic, blob))
            if what == "already-there" and names.get(str(part.partname)[1:]) != blob:
                ctx.fail("stored-twice-after-reopen", f"bytes the deck already holds as {[n for n, b_ in names.items() if b_ == blob]} (related from the theme) were stored again as {part.partname}", case)
            if what == "new" and str(part.partname)[1:] in names:
                ctx.fail("image-name-taken", f"new image bytes were given the name {part.partname}, which the deck's own image (related from the theme) carries", case)
        b = io.BytesIO(); prs.save(b)
        z2 = zipfile.ZipFile(io.BytesIO(b.getvalue()))
        for n, blob in names.items():
            cnt = z2.namelist().count(n)
            if cnt != 1 or z2.read(n) != blob:
                ctx.fail("producer-image-lost", f"{n} (related from the theme) is stored {cnt} time(s) after save" + ("" if cnt != 1 else " with other bytes"), case)
        if len(z2.namelist()) != len(set(z2.namelist())):
            ctx.fail("duplicate-member", f"the saved package has a member name twice: {sorted(n for n in set(z2.namelist()) if z2.namelist().count(n) > 1)}", case)
        re_ = Presentation(io.BytesIO(b.getvalue()))
        shown = [p.image.blob for p in re_.slides[0].shapes if hasattr(p, "image")]
        if shown != [blob for _, blob in pics]:
            ctx.fail("picture-image-blob", "after save and re-open the pictures do not show the bytes they were added with", case)


def check_zip(ctx, data, expected_blobs, blob_id):
    z = zipfile.ZipFile(io.BytesIO(data))
    media = [n for n in z.namelist() if n.startswith("ppt/media/image")]
    shas = {}
    for n in media:
        shas.setdefault(hashlib.sha1(z.read(n)).hexdigest(), []).append(n)
    dup = {k: v for k, v in shas.items() if len(v) > 1}
    if dup:
        ctx.fail("stored-twice", f"the same image bytes are stored in several parts: {list(dup.values())[:2]}", {})
    for name, blob in expected_blobs.items():
        if name[1:] in media and z.read(name[1:]) != blob:
            ctx.fail("zip-bytes-differ", f"{name} in the saved zip differs from the input bytes", {})
    ct = z.read("[Content_Types].xml").decode()
    for n in media:
        ext = n.rsplit(".", 1)[1]
        m = re.search(r'Extension="%s" ContentType="([^"]+)"' % ext, ct, re.I)
        want = {"png": "image/png", "jpg": "image/jpeg", "gif": "image/gif", "bmp": "image/bmp", "tiff": "image/tiff"}.get(ext)
        ov = re.search(r'PartName="/%s" ContentType="([^"]+)"' % re.escape(n), ct)
        got = ov.group(1) if ov else (m.group(1) if m else None)
        if want and got != want:
            ctx.fail("media-content-type", f"{n}: content type {got!r}, expected {want!r}", {})


def search(ctx, hints):
    return


def replay(ctx, data):
    for f in data.get("failing_inputs_on_real_code", []):
        print(f["what"][:400])
    for d in data.get("correspondence_disagreements", []):
        print("model/impl disagreement:", str(d)[:400])
    return 1
