"""C14 — tables stay rectangular; merges consistent; sizes sum."""
from __future__ import annotations

import itertools
import multiprocessing as mp
import os

from harness.common import enc, enc_list

ID = "C14"
LEAN_MODULES = ["PptxModel.Props.C14"]
RULE = (
    "merge/split sequences: exhaustive (every ordered corner pair = all four orientations, every split target) to "
    "depth 2 on every shape <= 3x3 (quick) / <= 4x4 (thorough), depth 3 exhaustive on shapes <= 2x3 (quick) / <= 3x3 "
    "(thorough), plus seeded sequences of 1..8 ops on tables up to 12x12 with text in arbitrary cells (multi-paragraph, "
    "empty-run, break-only); merges into another table; new tables over all (rows, cols) <= 7 x seeded non-divisible "
    "widths/heights, followed by row-height / column-width assignments.  Final grid state (all four attributes, "
    "is_merge_origin, is_spanned, paragraphs of every cell) and per-op accept/refuse compared exactly with the model; "
    "prefixes are covered because every prefix is itself enumerated.  Non-trivial = distinct (shape, texts, ops)."
)
ASSUMPTIONS = [
    "a paragraph is abstracted to its text (paragraph elements are moved, not copied, by the code; the model moves strings)",
    "every cell has at least one paragraph (CT_TextBody.is_empty raises otherwise)",
]
TRUSTED = ["grid dimensions are constant by construction in the model; the a:tc count per row is checked on the real table"]

_state = {}


def _slide():
    if "slide" not in _state:
        from pptx import Presentation

        prs = Presentation()
        _state["prs"] = prs
        _state["slide"] = prs.slides.add_slide(prs.slide_layouts[6])
    return _state["slide"]


def enc_seq(rows, cols, texts, ops):
    t = "|".join(f"{r},{c}:{enc_list(ps)}" for (r, c), ps in texts) or "!"
    o = "/".join(("m:%d,%d,%d,%d" % op[1:]) if op[0] == "m" else ("s:%d,%d" % op[1:]) for op in ops) or "!"
    return f"c14.seq {rows} {cols} {t} {o}"


def run_impl(case):
    """-> (line for diff, list of L2 failures)"""
    from lxml import etree

    rows, cols, texts, ops = case
    slide = _slide()
    gf = slide.shapes.add_table(rows, cols, 0, 0, 1000 * cols, 500 * rows)
    tbl = gf.table
    import zlib
    if zlib.crc32(repr(case).encode()) % 4 == 0:
        # a:tblPr is optional: tables of other producers may start with a:tblGrid
        t_ = tbl._tbl
        if t_.tblPr is not None:
            t_.remove(t_.tblPr)
    fails = []
    for (r, c), ps in texts:
        cell = tbl.cell(r, c)
        cell.text = "\n".join(ps)
    errs = []
    regions = []  # abstract spec: list of (top, left, h, w)
    other = None
    respell = zlib.crc32(repr(case).encode()) % 8 == 1
    for op in ops:
        if respell:
            # the spelling other producers use for xsd:boolean: hMerge="true" / vMerge="true" (the library writes "1")
            for tc in tbl._tbl.iter("{http://schemas.openxmlformats.org/drawingml/2006/main}tc"):
                for a in ("hMerge", "vMerge"):
                    if tc.get(a) in ("1", "0"):
                        tc.set(a, "true" if tc.get(a) == "1" else "false")
                    elif tc.get(a) is None:
                        # ... and the ordinary state written out (hMerge="false" / vMerge="0") where the library leaves it away
                        tc.set(a, "false" if a == "hMerge" else "0")
        before = etree.tostring(tbl._tbl)
        if op[0] == "m":
            _, r1, c1, r2, c2 = op
            top, left = min(r1, r2), min(c1, c2)
            h, w = abs(r1 - r2) + 1, abs(c1 - c2) + 1
            overlap = any(not (top + h <= t or t + hh <= top or left + w <= l or l + ww <= left) for t, l, hh, ww in regions)
            rng = [(r, c) for r in range(top, top + h) for c in range(left, left + w)]
            all_ps = []
            for r, c in rng:
                pst = [p.text for p in tbl.cell(r, c).text_frame.paragraphs]
                if pst != [""]:
                    all_ps += pst
            try:
                tbl.cell(r1, c1).merge(tbl.cell(r2, c2))
                errs.append("ok")
                if overlap:
                    fails.append(("merge-accepted-over-merged-region", f"merge {op[1:]} overlapping {regions} was accepted"))
                if h * w > 1:
                    regions.append((top, left, h, w))
                got = [p.text for p in tbl.cell(top, left).text_frame.paragraphs]
                if got != (all_ps or [""]):
                    fails.append(("merge-text", f"after merge {op[1:]} origin paragraphs {got}, reading-order text before {all_ps}"))
                for r, c in rng[1:]:
                    if tbl.cell(r, c).text != "":
                        fails.append(("merge-text-left-behind", f"cell {(r,c)} keeps text after merge"))
            except ValueError:
                errs.append("refused")
                if not overlap:
                    fails.append(("merge-refused-without-overlap", f"merge {op[1:]} refused; regions {regions}"))
                if etree.tostring(tbl._tbl) != before:
                    fails.append(("refused-merge-changed-table", f"refused merge {op[1:]} changed the XML"))
        elif op[0] == "s":
            _, r, c = op
            reg = [g for g in regions if g[0] == r and g[1] == c]
            try:
                tbl.cell(r, c).split()
                errs.append("ok")
                if not reg:
                    fails.append(("split-accepted-non-origin", f"split {(r,c)} accepted; regions {regions}"))
                else:
                    regions.remove(reg[0])
            except ValueError:
                errs.append("notorigin")
                if reg:
                    fails.append(("split-refused-origin", f"split of origin {(r,c)} refused"))
                if etree.tostring(tbl._tbl) != before:
                    fails.append(("refused-split-changed-table", "refused split changed the XML"))
        elif op[0] == "x":  # merge into another table
            if other is None:
                other = slide.shapes.add_table(rows, cols, 0, 0, 100, 100)
            try:
                tbl.cell(op[1], op[2]).merge(other.table.cell(op[1], op[2]))
                fails.append(("merge-other-table-accepted", "merge reaching into another table accepted"))
            except ValueError:
                pass
            if etree.tostring(tbl._tbl) != before:
                fails.append(("refused-merge-changed-table", "other-table merge changed the XML"))
    # final observation + L2 against the abstract regions
    cells = []
    trs = tbl._tbl.tr_lst
    if len(trs) != rows or any(len(tr.tc_lst) != cols for tr in trs):
        fails.append(("not-rectangular", f"rows {[len(tr.tc_lst) for tr in trs]} expected {rows}x{cols}"))
    for r in range(rows):
        for c in range(cols):
            cell = tbl.cell(r, c)
            tc = cell._tc
            ps = [p.text for p in cell.text_frame.paragraphs]
            cells.append("%d.%d.%d.%d.%d.%d:%s" % (tc.gridSpan, tc.rowSpan, tc.hMerge, tc.vMerge, cell.is_merge_origin,
                                                  cell.is_spanned, enc_list(ps)))
            reg = [g for g in regions if g[0] <= r < g[0] + g[2] and g[1] <= c < g[1] + g[3]]
            if len(reg) > 1:
                fails.append(("regions-overlap", str(regions)))
            if reg:
                t, l, h, w = reg[0]
                is_o = (r, c) == (t, l)
                if cell.is_merge_origin != is_o or cell.is_spanned != (not is_o) or (is_o and (cell.span_height, cell.span_width) != (h, w)):
                    fails.append(("region-flags", f"cell {(r,c)} of region {reg[0]}: origin={cell.is_merge_origin} spanned={cell.is_spanned} span={(cell.span_height, cell.span_width)}"))
            else:
                if cell.is_merge_origin or cell.is_spanned or (tc.gridSpan, tc.rowSpan) != (1, 1):
                    fails.append(("free-cell-flags", f"cell {(r,c)} outside all regions {regions} has merge attributes"))
    sp = slide.shapes._spTree
    sp.remove(gf._element)
    if other is not None:
        sp.remove(other._element)
    return ",".join(e for e in errs) + " " + "|".join(cells), fails


def run_size(case):
    rows, cols, w, h, ops = case
    slide = _slide()
    gf = slide.shapes.add_table(rows, cols, 10, 20, w, h)
    tbl = gf.table
    fails = []
    ws = [c.width for c in tbl.columns]
    hs = [r.height for r in tbl.rows]
    if sum(ws) != w or sum(hs) != h or len(ws) != cols or len(hs) != rows:
        fails.append(("new-table-sums", f"{rows}x{cols} table {w}x{h}: widths {ws} heights {hs}"))
    for k, i, v in ops:
        before = ([int(c.width) for c in tbl.columns], [int(r.height) for r in tbl.rows], int(gf.width), int(gf.height))
        try:
            if k == "w":
                tbl.columns[i].width = v
            elif k == "h":
                tbl.rows[i].height = v
            elif k == "W":
                gf.width = v          # the caller resizes the frame: it no longer equals the sum ...
            else:
                gf.height = v
        except ValueError:
            # refused (the value, or the total it produces, cannot be written): nothing may have changed
            after = ([int(c.width) for c in tbl.columns], [int(r.height) for r in tbl.rows], int(gf.width), int(gf.height))
            if after != before:
                fails.append(("size-refused-but-changed", f"{k}[{i}] = {v} was refused but the sizes changed from {before} to {after}"))
            continue
        if gf.width != sum(c.width for c in tbl.columns) and k == "w":
            fails.append(("frame-width", f"frame width {gf.width} != sum of column widths"))
        if gf.height != sum(r.height for r in tbl.rows) and k == "h":
            fails.append(("frame-height", f"frame height {gf.height} != sum of row heights"))
    out = "%s %s %d %d" % (",".join(str(int(c.width)) for c in tbl.columns), ",".join(str(int(r.height)) for r in tbl.rows), gf.width, gf.height)
    slide.shapes._spTree.remove(gf._element)
    return out, fails


def _work(item):
    kind, case = item
    try:
        return run_impl(case) if kind == "seq" else run_size(case)
    except Exception as e:  # noqa
        return "EXC " + repr(e), [("exception", repr(e))]


def all_ops(rows, cols):
    cells = [(r, c) for r in range(rows) for c in range(cols)]
    ops = [("m", a[0], a[1], b[0], b[1]) for a in cells for b in cells]
    ops += [("s", r, c) for r, c in cells]
    return ops


PARAS = [[""], ["a"], ["b", "c"], ["", ""], ["x", ""], ["\v"], ["d\ve"]]


def correspond(ctx):
    rng = ctx.rng
    items = []
    d2 = 3 if ctx.quick else 4
    for rows in range(1, d2 + 1):
        for cols in range(1, d2 + 1):
            ops = all_ops(rows, cols)
            seqs = list(itertools.product(ops, repeat=2))
            if ctx.quick and len(seqs) > 9000:
                seqs = rng.sample(seqs, 9000)
                ctx.count("depth2-sampled-shapes")
            for s in seqs:
                items.append(("seq", (rows, cols, [], list(s))))
                ctx.count("depth2")
            for o in ops:
                items.append(("seq", (rows, cols, [], [o])))
                ctx.count("depth1")
    shapes3 = [(1, 2), (2, 1), (2, 2), (1, 3), (3, 1), (2, 3), (3, 2)] if ctx.quick else [(r, c) for r in range(1, 4) for c in range(1, 4)]
    for rows, cols in shapes3:
        ops = all_ops(rows, cols)
        seqs = itertools.product(ops, repeat=3)
        seqs = list(seqs)
        cap = 6000 if ctx.quick else 120000
        if len(seqs) > cap:
            seqs = rng.sample(seqs, cap)
            ctx.count("depth3-sampled-shapes")
        for s in seqs:
            items.append(("seq", (rows, cols, [], list(s))))
            ctx.count("depth3")
    # seeded: larger tables with text
    n = 1500 if ctx.quick else 12000
    for _ in range(n):
        rows, cols = rng.randint(1, 12), rng.randint(1, 12)
        if rng.random() < 0.5:
            rows, cols = rng.randint(1, 5), rng.randint(1, 5)
        texts = []
        for r in range(rows):
            for c in range(cols):
                if rng.random() < 0.4:
                    texts.append(((r, c), rng.choice(PARAS)))
        ops = []
        for _ in range(rng.randint(1, 8)):
            x = rng.random()
            if x < 0.7:
                r1, c1 = rng.randrange(rows), rng.randrange(cols)
                r2 = min(rows - 1, max(0, r1 + rng.randint(-3, 3)))
                c2 = min(cols - 1, max(0, c1 + rng.randint(-3, 3)))
                ops.append(("m", r1, c1, r2, c2))
            elif x < 0.95:
                prev = [o for o in ops if o[0] == "m"]
                if prev and rng.random() < 0.7:
                    o = rng.choice(prev)
                    ops.append(("s", min(o[1], o[3]), min(o[2], o[4])))
                else:
                    ops.append(("s", rng.randrange(rows), rng.randrange(cols)))
            else:
                ops.append(("x", rng.randrange(rows), rng.randrange(cols)))
        items.append(("seq", (rows, cols, texts, ops)))
        ctx.count("seeded")
        ctx.count("seeded-ops", len(ops))
    # sizes
    for rows in range(1, 8):
        for cols in range(1, 8):
            for _ in range(2 if ctx.quick else 12):
                w = rng.choice([0, 1, 7, 100, 914400, 9144000, 1234567]) + rng.randint(0, 50)
                h = rng.choice([0, 1, 5, 370840, 999999]) + rng.randint(0, 50)
                # ... until the next column-width / row-height assignment, which must make it the sum again
                edge = [0, -1, 1, 27273042316900, 27273042316901, -27273042329600, -27273042329601, 13636521158450, -5000]
                ops = [(rng.choice("wwhhWH"), 0, rng.choice(edge) if rng.random() < 0.35 else rng.randint(0, 100000)) for _ in range(rng.randint(0, 5))]
                ops = [(k, i, (max(v, 0) if k in "WH" else v)) for k, i, v in ops]   # the frame itself is resized inside its type only
                ops = [(k, rng.randrange(cols if k in "wW" else rows), v) for k, _, v in ops]
                items.append(("size", (rows, cols, w, h, ops)))
                ctx.count("size")

    lines = []
    for kind, case in items:
        if kind == "seq":
            rows, cols, texts, ops = case
            lines.append(enc_seq(rows, cols, texts, [o for o in ops if o[0] != "x"]))
        else:
            rows, cols, w, h, ops = case
            lines.append(f"c14.new {rows} {cols} {w} {h} " + ("/".join(f"{k}:{i}:{v}" for k, i, v in ops) or "!"))
    for l in lines:
        ctx.case(key=l)
    nproc = min(16, os.cpu_count() or 4)
    with mp.get_context("fork").Pool(nproc) as pool:
        res = pool.map(_work, items, chunksize=200)
    model = ctx.driver.run(lines)
    for (kind, case), (out, fails), m, line in zip(items, res, model, lines):
        ctx.traces += 1
        for key, what in fails:
            ctx.fail(key, what, {"kind": kind, "case": case, "line": line})
        if out != m:
            ctx.disagree(kind, {"case": case, "line": line}, out, m)
    ctx.sample({"line": lines[100], "impl": res[100][0]})
    big = [i for i, it in enumerate(items) if it[0] == "seq" and it[1][2]]
    if big:
        ctx.sample({"line": lines[big[0]], "case": str(items[big[0]][1]), "impl": res[big[0]][0]})
    ctx.sample({"line": lines[-1], "impl": res[-1][0]})


def search(ctx, hints):
    return


def replay(ctx, data):
    bad = 0
    for f in data.get("failing_inputs_on_real_code", []):
        c = f["case"]
        case = c["case"]
        if c["kind"] == "seq":
            rows, cols, texts, ops = case
            out, fails = run_impl((rows, cols, [((t[0][0], t[0][1]), t[1]) for t in texts], [tuple(o) for o in ops]))
        else:
            out, fails = run_size(tuple(case[:4]) + ([tuple(o) for o in case[4]],))
        print(f["what"], "->", fails)
        bad += bool(fails)
    for d in data.get("correspondence_disagreements", []):
        print("model/impl disagreement:", d)
        bad += 1
    return 1 if bad else 0
