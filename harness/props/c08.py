"""C08 — the chart's cached values and its embedded workbook agree cell for cell."""
from __future__ import annotations

import datetime as dt

from harness import chartlab as lab, common

ID = "C08"
LEAN_MODULES = ["PptxModel.Props.C08", "PptxModel.Props.C08D"]
RULE = (
    "seeded chart data as in C07 for every writable chart type, with series counts chosen to cross the A..Z / AA..ZZ "
    "boundaries (27, 53 and, thorough tier, 703 series), 1-4 category levels, XY / bubble series of unequal lengths incl. "
    "empty ones; the embedded workbook is read directly from its zip (sheet1.xml + sharedStrings.xml) and every formula "
    "reference of the chart XML (series name, categories, values, X / Y values, bubble sizes) is resolved against it: "
    "range size = announced ptCount, every cached point = the cell it is indexed to (dates as serial numbers), after "
    "add_chart and after replace_data, and again for every chart of a deck after the whole deck was saved and re-opened.  Reference "
    "strings are also compared with the Lean layout model, date serial numbers (both date systems, years 1..9999) with Model/Serial.  "
    "Non-trivial = distinct (chart type, data shape)."
)
ASSUMPTIONS = [
    "XlsxWriter's encoding of cells and its own date-to-serial conversion are runtime (read back from the produced file)",
    "an empty XY/bubble series yields the inverted range $A$k:$A$k-1 with ptCount 0 (recorded, see known findings)",
]
TRUSTED = ["the minimal xlsx reader in harness/chartlab.py"]


def num(v):
    return None if v is None else float(v)


def check(ctx, chart, spec, ct, stage, lines, impl, metas):
    root = lab.chart_xml(chart)
    case = {"chart_type": ct.name, "stage": stage, "data": str(spec)[:400]}
    try:
        wb = lab.Workbook(chart.part.chart_workbook.xlsx_part.blob)
    except Exception as e:  # noqa
        ctx.fail("workbook-unreadable", f"{ct.name} [{stage}]: embedded workbook cannot be read: {type(e).__name__}: {e}", case)
        return
    fail = lambda key, what: ctx.fail(key, f"{ct.name} [{stage}]: {what}", case)  # noqa
    sers = root.xpath("//c:ser", namespaces=lab.NS)
    xy = spec["kind"] in ("xy", "bubble")
    lens = [len(d) for _, d in spec["series"]]
    depth = spec.get("depth", 1)
    for j, ser in enumerate(sers):
        # series name
        f = ser.findtext("c:tx/c:strRef/c:f", namespaces=lab.NS)
        cached = ser.findtext("c:tx/c:strRef/c:strCache/c:pt/c:v", namespaces=lab.NS)
        if f is not None:
            cells = wb.range(f)
            if cells is None or cells[0][0] != (cached or ""):
                if not (cells is not None and cells[0][0] is None and (cached or "") == ""):
                    fail("name-ref", f"series {j}: name reference {f} holds {cells and cells[0][0]!r}, cache says {cached!r}")
            if not xy:
                lines.append(f"c08.cat {depth} {j} {lens[j] if j < len(lens) else 0}")
                vf = ser.findtext("c:val/c:numRef/c:f", namespaces=lab.NS)
                impl.append(f"{vf} {f}"); metas.append(case); ctx.case(key=lines[-1] + ct.name)
            else:
                row = f.rsplit("$", 1)[1]
                xf = ser.findtext("c:xVal/c:numRef/c:f", namespaces=lab.NS)
                m = xf and xf.replace("Sheet1!$A$", "").split(":$A$")
                if m and len(m) == 2:
                    lines.append(f"c08.xy {','.join(map(str, lens)) or '!'} {j}")
                    impl.append(f"{m[0]} {m[1]} {row}"); metas.append(case); ctx.case(key=lines[-1] + ct.name)
        # numeric caches
        for tag in (["c:xVal", "c:yVal", "c:bubbleSize"] if xy else ["c:val"]):
            ref = ser.findtext(f"{tag}/c:numRef/c:f", namespaces=lab.NS)
            cache = ser.find(f"{tag}/c:numRef/c:numCache", lab.NS)
            if ref is None or cache is None:
                continue
            n, pts = lab.pts_of(cache)
            cells = wb.range(ref)
            if cells is None:
                fail("bad-ref", f"unparseable reference {ref!r}")
                continue
            col = cells[0]
            if n == 0 and len(col) != 0:
                fail("empty-series-range", f"series {j} {tag}: ptCount 0 but the reference {ref} is an inverted range addressing {len(col) if len(col) else 2} cells")
                continue
            if len(col) != n:
                fail("range-size", f"series {j} {tag}: reference {ref} spans {len(col)} cells, ptCount is {n}")
                continue
            cached_by_idx = {i: float(t) for i, t in pts}
            for i, cell in enumerate(col):
                if isinstance(cell, str) or num(cell) != cached_by_idx.get(i):
                    fail("cell-vs-cache", f"series {j} {tag}: point {i} cached {cached_by_idx.get(i)!r} but cell of {ref} holds {cell!r}")
                    break
        # categories
        cat = ser.find("c:cat", lab.NS)
        if cat is not None:
            ref = cat.findtext(".//c:f", namespaces=lab.NS)
            cells = wb.range(ref)
            lvls = cat.findall(".//c:lvl", lab.NS) or [c for c in cat.iter() if c.tag.endswith("}strCache") or c.tag.endswith("}numCache")]
            npts = [lab.pts_of(l) for l in lvls]
            pc = cat.find(".//c:ptCount", lab.NS)
            n = int(pc.get("val")) if pc is not None else None
            if j == 0:
                lines.append(f"c08.catref {depth} {n}")
                impl.append(ref); metas.append(case); ctx.case(key=lines[-1] + ct.name)
            if cells is None or len(cells) != len(lvls) or any(len(c) != n for c in cells):
                fail("categories-range", f"categories reference {ref} is {len(cells or [])} col x {len((cells or [[]])[0])} rows; {len(lvls)} level(s), ptCount {n}")
                continue
            # dates: the cached point is the date's serial in the CHART's date system, the cell its serial in the workbook's
            # own (the two systems are 1462 days apart, 1461 before the 1900 leap-year bug)
            is_date = spec.get("kind") == "date" and len(lvls) == 1
            c1904 = lab.chart_is_1904(root)
            for k, (lv, (_, pts)) in enumerate(zip(lvls, npts)):
                col = cells[len(lvls) - 1 - k]  # leaf level is the right-most column
                for i, t in pts:
                    cell = col[i]
                    try:
                        if is_date and i < len(spec["cats"]) and t is not None and isinstance(cell, float):
                            d = spec["cats"][i]
                            ok = float(t) == float(lab.excel_serial(d, c1904)) and cell == float(lab.excel_serial(d, wb.date1904))
                        else:
                            ok = (cell == t) or (isinstance(cell, float) and t is not None and float(t) == cell) or (cell is None and (t or "") == "")
                    except ValueError:
                        ok = False
                    if not ok:
                        fail("category-cell-vs-cache", f"level {k} point {i}: cache {t!r}, cell {cell!r} ({ref})")
                        break


def make_combo(rng, chart):
    """turn a bar chart with several series into the combination chart other producers write (the library itself never
    does): the last k series move into a c:lineChart on the same axes.  -> True when done"""
    from pptx.oxml import parse_xml

    cs = chart._chartSpace
    bars = cs.xpath("//c:plotArea/c:barChart")
    if len(bars) != 1:
        return False
    bar = bars[0]
    sers = bar.xpath("./c:ser")
    if len(sers) < 2:
        return False
    k = rng.randint(1, len(sers) - 1)
    ax = "".join('<c:axId val="%s"/>' % a.get("val") for a in bar.xpath("./c:axId"))
    line = parse_xml('<c:lineChart xmlns:c="http://schemas.openxmlformats.org/drawingml/2006/chart"><c:grouping val="standard"/>'
                     '<c:varyColors val="0"/><c:marker val="1"/>%s</c:lineChart>' % ax)
    bar.addnext(line)
    anchor = line.xpath("./c:marker")[0]
    for ser in sers[-k:]:
        for e in ser.xpath("./c:invertIfNegative"):
            ser.remove(e)
        anchor.addprevious(ser)
    return True



def combo_shrink(ctx, lines, impl, metas):
    """a combination chart (bar + line, as other producers write them) cut down by replace_data to every smaller number of
    series - inside the last plot, exactly at the plot boundary, across it: the cached values must still be the cells"""
    from pptx import Presentation
    from pptx.chart.data import CategoryChartData
    from pptx.enum.chart import XL_CHART_TYPE

    class Fixed:
        def __init__(self, k):
            self.k = k

        def randint(self, a, b):
            return self.k
    for nbar, nline in ((3, 2), (2, 3), (1, 1), (4, 1)):
        for target in range(1, nbar + nline + 2):
            prs = Presentation(); slide = prs.slides.add_slide(prs.slide_layouts[6])
            cd = CategoryChartData(); cd.categories = ["a", "b", "c"]
            for j in range(nbar + nline):
                cd.add_series("S%d" % j, [j, j + 1, j + 2])
            chart = slide.shapes.add_chart(XL_CHART_TYPE.COLUMN_CLUSTERED, 0, 0, 100, 100, cd).chart
            if not make_combo(Fixed(nline), chart):
                continue
            cd2 = CategoryChartData(); cd2.categories = ["p", "q"]
            spec2 = {"kind": "str", "cats": ["p", "q"], "depth": 1, "series": []}
            for j in range(target):
                cd2.add_series("T%d" % j, [10 * j, 10 * j + 1]); spec2["series"].append(("T%d" % j, [10 * j, 10 * j + 1]))
            try:
                chart.replace_data(cd2)
            except Exception:  # noqa
                ctx.count("replace-raised(see C07)")
                continue
            ctx.count("combination-chart-cut-to-n-series")
            check(ctx, chart, spec2, XL_CHART_TYPE.COLUMN_CLUSTERED, f"combo {nbar}+{nline} -> {target}", lines, impl, metas)
            nser = len(lab.chart_xml(chart).xpath("//c:ser", namespaces=lab.NS))
            if nser != target:
                ctx.fail("replace-data-series-count", f"combination chart {nbar}+{nline} after replace_data with {target} series holds {nser} c:ser", {"bars": nbar, "lines": nline, "target": target})


def date_serials(ctx, lines, impl, metas):
    """`Category._excel_date_number` / `numeric_str_val` against `Serial.excelDateNumber` / `serialText` (`c08.serial`): the
    serial number, its text and the date the serial decodes to, in both date systems, for dates across datetime's whole
    range (the 1900 leap-year days, both epochs, year ends, leap days of century years, years 1 and 9999), as dates and as
    datetimes; beside it the definition itself, from date arithmetic: serial 1 = 1900-01-01, serial 61 = 1900-03-01
    (1900 system), serial 0 = 1904-01-01 (1904 system)"""
    import datetime as dt

    from pptx.chart.data import Categories, Category

    rng = ctx.rng
    edge = [(1900, 1, 1), (1900, 2, 27), (1900, 2, 28), (1900, 3, 1), (1900, 3, 2), (1899, 12, 30), (1899, 12, 31), (1904, 1, 1), (1903, 12, 31),
            (1904, 1, 2), (1904, 2, 29), (2000, 2, 29), (2100, 2, 28), (2100, 3, 1), (1600, 2, 29), (1, 1, 1), (1, 12, 31), (9999, 12, 31), (9999, 1, 1),
            (1970, 1, 1), (2024, 12, 31), (2400, 2, 29), (400, 2, 29), (100, 3, 1)]
    n = 150 if ctx.quick else 4000
    for k in range(len(edge) + n):
        if k < len(edge):
            y, m, d = edge[k]
        else:
            o = rng.choice([rng.randint(1, 3652059), rng.randint(693000, 696000), rng.randint(730000, 740000)])
            v = dt.date.fromordinal(o); y, m, d = v.year, v.month, v.day
        for flag in (False, True):
            label = dt.date(y, m, d) if rng.random() < 0.6 else dt.datetime(y, m, d, rng.randint(0, 23), rng.randint(0, 59), rng.randint(0, 59))
            cat = Category(label, Categories())
            num_ = cat._excel_date_number(flag)
            text = cat.numeric_str_val(flag)
            # the date this serial stands for in its system
            if flag:
                back = dt.date(1904, 1, 1).toordinal() + num_
            else:
                back = dt.date(1899, 12, 31).toordinal() + (num_ - 1 if num_ > 60 else num_)
            bd = dt.date.fromordinal(back) if 1 <= back <= 3652059 else None
            case = {"date": (y, m, d), "date_1904": flag, "label": type(label).__name__}
            if bd != dt.date(y, m, d) or (not flag and num_ == 60):
                ctx.fail("date-serial", f"{label!r} in the {'1904' if flag else '1900'} date system is given serial {num_}, which stands for {bd}", case)
            if float(text) != num_:
                ctx.fail("date-serial-text", f"{label!r}: serial {num_} is written as {text!r}", case)
            lines.append(f"c08.serial {y} {m} {d} {int(flag)}")
            impl.append(f"{num_} {text} {y}-{m}-{d}"); metas.append(dict(case, what="date serial")); ctx.case(key=lines[-1] + type(label).__name__)
            ctx.count("date-serial-" + ("1904" if flag else "1900"))


def correspond(ctx):
    from pptx import Presentation

    rng = ctx.rng
    types = lab.writable_types()
    lines, impl, metas = [], [], []
    combo_shrink(ctx, lines, impl, metas)
    prs = Presentation(); slide = prs.slides.add_slide(prs.slide_layouts[6])
    per_type = 10 if ctx.quick else 60
    wide = [27, 53] if ctx.quick else [27, 53, 703]
    deck = []   # [chart, spec as it is now, chart type] of every chart on the current deck

    def reopen_all():
        """the whole deck - many charts, many embedded workbooks - saved and re-opened: every chart still agrees with ITS workbook"""
        import io as _io
        if not deck:
            return
        b = _io.BytesIO(); prs.save(b)
        sl2 = Presentation(_io.BytesIO(b.getvalue())).slides[0]
        charts2 = [sh.chart for sh in sl2.shapes if getattr(sh, "has_chart", False)]
        mine = [sh.chart for sh in slide.shapes if getattr(sh, "has_chart", False)]
        for ch, spec_, ct_ in deck:
            k = next((i for i, c in enumerate(mine) if c is ch or c._chartSpace is ch._chartSpace), None)
            if k is not None and k < len(charts2):
                check(ctx, charts2[k], spec_, ct_, "deck-reopened(%d charts)" % len(mine), lines, impl, metas)
        ctx.count("deck-reopen-passes")
        del deck[:]

    for ti, (ct, kind) in enumerate(types):
        for rep in range(per_type):
            if len(slide.shapes) > 30:
                reopen_all()
                prs = Presentation(); slide = prs.slides.add_slide(prs.slide_layouts[6])
            if kind == "cat":
                ns = None
                if "PIE" in ct.name or "DOUGHNUT" in ct.name:
                    ns = 1 if "PIE" in ct.name else None
                elif rep == 0 and ti % 5 == 0:
                    ns = wide[(ti // 5) % len(wide)]
                spec, cd = lab.gen_cat_data(rng, n_series=ns)
            else:
                spec, cd = lab.gen_xy_data(rng, bubble=(kind == "bubble"))
            try:
                chart = slide.shapes.add_chart(ct, 0, 0, 100, 100, cd).chart
            except Exception as e:  # noqa
                ctx.fail("add-chart-raises:" + ct.name, f"{ct.name}: {type(e).__name__}: {str(e)[:120]}", {"chart_type": ct.name})
                continue
            ctx.count("type-" + kind); ctx.count("series-%s" % ("wide" if len(spec["series"]) > 26 else "narrow"))
            check(ctx, chart, spec, ct, "add", lines, impl, metas)
            entry = [chart, spec, ct]; deck.append(entry)
            twin = None
            if rng.random() < 0.3 and spec["series"]:
                # a second chart from the SAME data (equal workbook bytes when both are written within one second): what is
                # done to the first chart later must not reach the second one's workbook
                import copy as _copy
                try:
                    twin = (slide.shapes.add_chart(ct, 0, 0, 100, 100, cd).chart, _copy.deepcopy(spec))
                    deck.append([twin[0], twin[1], ct])
                    ctx.count("twin-chart-from-equal-data")
                except Exception:  # noqa
                    twin = None
            if kind != "cat" and spec["series"] and rng.random() < 0.5:
                # the SAME chart-data object, grown, then used again
                j = rng.randrange(len(spec["series"]))
                for _ in range(rng.choice([1, 2, 3])):
                    extra = (rng.randint(-9, 9), rng.randint(-9, 9)) + ((rng.randint(1, 9),) if kind == "bubble" else ())
                    cd[j].add_data_point(*extra)
                    spec["series"][j][1].append(extra)
                try:
                    chart.replace_data(cd)
                    ctx.count("replace_data-same-object")
                    check(ctx, chart, spec, ct, "replace-same-object", lines, impl, metas)
                except Exception as e:  # noqa
                    ctx.count("replace-raised(see C07)")
            if kind == "cat" and len(spec["series"]) <= 8 and rng.random() < 0.4 and make_combo(rng, chart):
                ctx.count("combination-chart(bar+line)")
                check(ctx, chart, spec, ct, "combo", lines, impl, metas)
            if rng.random() < 0.8 and spec["series"]:
                if kind == "cat" and rng.random() < 0.3:
                    # the 1904 date system as other producers declare it: val="1", or the bare element (val defaults to true)
                    d = chart._chartSpace.xpath("./c:date1904")
                    if d:
                        if rng.random() < 0.5:
                            d[0].set("val", "1")
                        elif "val" in d[0].attrib:
                            del d[0].attrib["val"]
                        ctx.count("foreign-state-date1904")
                if kind == "cat":
                    spec2, cd2 = lab.gen_cat_data(rng, n_series=(1 if "PIE" in ct.name else rng.choice([1, 2, 5])))
                else:
                    spec2, cd2 = lab.gen_xy_data(rng, bubble=(kind == "bubble"))
                try:
                    chart.replace_data(cd2)
                    ctx.count("replace_data")
                    entry[1] = spec2
                    check(ctx, chart, spec2, ct, "replace", lines, impl, metas)
                except Exception as e:  # noqa
                    ctx.count("replace-raised(see C07)")
            if twin is not None:
                check(ctx, twin[0], twin[1], ct, "twin-after-sibling-changed", lines, impl, metas)
                import io as _io
                if rng.random() < 0.3:
                    b = _io.BytesIO(); prs.save(b)
                    prs2 = Presentation(_io.BytesIO(b.getvalue()))
                    sl2 = prs2.slides[0]
                    charts2 = [sh.chart for sh in sl2.shapes if getattr(sh, "has_chart", False)]
                    k = [sh.chart for sh in slide.shapes if getattr(sh, "has_chart", False)].index(twin[0]) if True else 0
                    check(ctx, charts2[k], twin[1], ct, "twin-after-sibling-changed+reopen", lines, impl, metas)
    reopen_all()
    for n in [1, 2, 25, 26, 27, 51, 52, 53, 701, 702, 703, 704, 16384, 18278, 18279] + [rng.randint(1, 16384) for _ in range(40)]:
        from pptx.chart.xlsx import CategoryWorkbookWriter
        try:
            got = CategoryWorkbookWriter._column_reference(n)
        except ValueError:
            got = "ValueError"
        if got != "ValueError":
            lines.append(f"c08.col {n}"); impl.append(got); metas.append({"col": n}); ctx.case(key=lines[-1])
            if lab.col_num(got) != n:
                ctx.fail("column-letters", f"column {n} -> {got!r}, which names column {lab.col_num(got)}", {"col": n})
    date_serials(ctx, lines, impl, metas)
    res = ctx.driver.run(lines)
    for case, i, m in zip(metas, impl, res):
        ctx.traces += 1
        if i != m:
            ctx.disagree("reference", case, i, m)
    if lines:
        ctx.sample({"line": lines[0], "impl": impl[0]})
        ctx.sample({"line": lines[-1], "impl": impl[-1]})


def search(ctx, hints):
    return


def replay(ctx, data):
    for f in data.get("failing_inputs_on_real_code", []):
        print(f["what"][:500])
    for d in data.get("correspondence_disagreements", []):
        print("model/impl disagreement:", str(d)[:400])
    return 1
