"""C19 — part-name arithmetic (PackURI).  Correspondence: real `pptx.opc.packuri.PackURI` vs
`Model/PackUri.lean` over the property's segment alphabet, all names to depth 4 and pairs."""
from __future__ import annotations

import itertools

from harness.common import dec, enc

ID = "C19"
LEAN_MODULES = ["PptxModel.Props.C19", "PptxModel.Props.C19X"]
RULE = (
    "segment alphabet {slide, slide12, a.b, x.tar.gz, noext, UPPER.XML, [Content_Types].xml, _rels, 123, "
    ".hidden, image1a2, 1abc}; every accessor on every name to depth 4 and '/'; relative_ref then "
    "from_rel_ref on (base-dir, target) pairs (quick: exhaustive to depth 2 + seeded sample of deeper "
    "pairs; thorough: exhaustive to depth 3 + seeded depth-4 pairs); dotted / root-absolute / "
    "slash-heavy references against every base to depth 2; PackURI() acceptance on relative and empty "
    "strings.  A case is non-trivial when distinct as an (operation, arguments) tuple."
)
ASSUMPTIONS = [
    "posixpath.split/splitext/join/normpath/relpath are re-implemented in the model from CPython 3.12 "
    "source, not translated; tied by this correspondence",
    "a relative baseURI (posixpath.abspath would consult the cwd) is outside the model",
]
TRUSTED = ["posixpath re-implementation in Model/PackUri.lean (compared exhaustively on the bounded alphabet)"]

SEGS = ["slide", "slide12", "a.b", "x.tar.gz", "noext", "UPPER.XML", "[Content_Types].xml", "_rels",
        "123", ".hidden", "image1a2", "1abc"]


def names(depth):
    out = ["/"]
    for d in range(1, depth + 1):
        for t in itertools.product(SEGS, repeat=d):
            out.append("/" + "/".join(t))
    return out


def impl_acc(PackURI, s):
    try:
        u = PackURI(s)
    except (ValueError, IndexError):
        return "ERR"
    try:
        rels = u.rels_uri
    except (ValueError, IndexError):
        rels = None
    idx = u.idx
    return " ".join([enc(u.baseURI), enc(u.filename), enc(u.ext), "none" if idx is None else str(idx),
                     enc(u.membername), "ERR" if rels is None else enc(rels)])


def impl_from(PackURI, base, ref):
    try:
        return enc(PackURI.from_rel_ref(base, ref))
    except (ValueError, IndexError):
        return "ERR"


def oracle_acc(ctx, s, PackURI):
    """L2: the OPC definitions evaluated directly on the real code's answers."""
    u = PackURI(s)
    if s == "/":
        want = ("/", "", "", None, "", "/_rels/.rels")
    else:
        segs = s[1:].split("/")
        fn = segs[-1]
        base = "/" + "/".join(segs[:-1])
        stem, dotp, ext = fn.rpartition(".")
        if not dotp or stem.strip(".") == "":
            stem, ext = fn, ""
        i = 0
        while i < len(stem) and stem[i].isascii() and stem[i].isalpha():
            i += 1
        j = i
        while j < len(stem) and stem[j] in "0123456789":
            j += 1
        idx = int(stem[i:j]) if i > 0 and j > i else None
        want = (base, fn, ext, idx, s[1:], (base if base != "/" else "") + "/_rels/" + fn + ".rels")
    got = (u.baseURI, u.filename, u.ext, u.idx, u.membername, str(u.rels_uri))
    if got != want:
        ctx.fail("accessor:" + s, f"PackURI accessors of {s!r}: got {got}, OPC definition {want}", {"op": "acc", "name": s})


DOT_REFS = ["../x.xml", "./x.xml", "../../x.xml", "../../../../../x.xml", "a/../b.xml", "a/./b/../../c.xml",
            "/abs/y.xml", "/abs/../y.xml", "..", ".", "x/..", "//x/y.xml", "///x/y.xml", "a//b.xml", "a/b/",
            "../media/image1.png", "../slideLayouts/slideLayout1.xml", "./a/./b/./c.bin", "/", ""]


def rfc3986(base_dir, ref):
    """RFC 3986 5.2.2-5.2.4 for path-only references; returns None for shapes where the RFC result
    would keep a trailing slash or an empty segment (outside the property's statement)."""
    if ref == "" or ref.endswith("/") or ref.split("/")[-1] in (".", "..") or "//" in ref:
        return None
    if ref.startswith("/"):
        path = ref
    else:
        path = (base_dir if base_dir.endswith("/") else base_dir + "/") + ref
    out = []
    for seg in path.split("/")[1:]:
        if seg == ".":
            continue
        if seg == "..":
            if out:
                out.pop()
            continue
        out.append(seg)
    return "/" + "/".join(out)


def consumers(ctx):
    """the package loader and writer, which USE the part-name algebra: a relationship Target in any of the reference
    shapes of the property (relative with dot segments, root-absolute, root-absolute with dot segments) leads to the part
    RFC 3986 resolution names, and the Targets written after parts were renamed resolve to the parts' current names"""
    import io
    import re
    import zipfile

    from PIL import Image
    from pptx import Presentation
    from pptx.opc.packuri import PackURI

    rng = ctx.rng
    b = io.BytesIO(); Image.new("RGB", (4, 4), (9, 200, 9)).save(b, "PNG")
    prs = Presentation()
    for _ in range(3):
        prs.slides.add_slide(prs.slide_layouts[6]).shapes.add_picture(io.BytesIO(b.getvalue()), 0, 0)
    base = io.BytesIO(); prs.save(base)
    zin = zipfile.ZipFile(io.BytesIO(base.getvalue()))

    def variants(src_dir, target_abs):
        """reference strings that all resolve to `target_abs` from `src_dir`"""
        rel = PackURI(target_abs).relative_ref(src_dir)
        segs = src_dir.strip("/").split("/") if src_dir != "/" else []
        out = [rel, target_abs, "./" + rel]
        d, f = target_abs.rsplit("/", 1)
        out.append(d + "/./" + f)
        if d:
            out.append(d + "/../" + d.rsplit("/", 1)[-1] + "/" + f)
        if segs:
            out.append("../" + segs[-1] + "/" + rel)
            out.append("/" + "/".join(segs) + "/" + rel if not rel.startswith("/") else rel)
        return [o for o in out if rfc3986(src_dir, o) == target_abs]

    n_cases = 12 if ctx.quick else 120
    for k in range(n_cases):
        # rewrite some Targets of the presentation's and the slides' relationship items
        chosen = {}
        out = io.BytesIO()
        with zipfile.ZipFile(out, "w", zipfile.ZIP_DEFLATED) as zo:
            for name in zin.namelist():
                data = zin.read(name)
                if name.endswith(".rels") and name != "_rels/.rels" and (name.startswith("ppt/_rels/") or name.startswith("ppt/slides/_rels/")):
                    d_, f_ = name.rsplit("_rels/", 1)
                    src = "/" + d_ + f_[: -len(".rels")]
                    src_dir = src.rsplit("/", 1)[0] or "/"
                    text = data.decode("utf-8")

                    def sub(m):
                        tgt = m.group(2)
                        if "TargetMode" in m.group(0):
                            return m.group(0)
                        absn = rfc3986(src_dir, tgt)
                        if absn is None or rng.random() < 0.4:
                            return m.group(0)
                        vs = variants(src_dir, absn)
                        if not vs:
                            return m.group(0)
                        v = rng.choice(vs)
                        chosen[(src, m.group(1))] = (v, absn)
                        return m.group(0).replace('Target="%s"' % tgt, 'Target="%s"' % v)

                    text = re.sub(r'<Relationship [^>]*?Id="([^"]+)"[^>]*?Target="([^"]+)"[^>]*?/>', sub, text)
                    # attribute order varies: handle Target before Id as well
                    data = text.encode("utf-8")
                zo.writestr(name, data)
        case = {"targets": {f"{s_}#{r_}": v for (s_, r_), (v, _) in chosen.items()}}
        ctx.case(key=("consumer", k))
        try:
            p2 = Presentation(io.BytesIO(out.getvalue()))
        except Exception as e:  # noqa
            ctx.fail("loader:raises", f"opening a package whose Targets are {sorted(set(v for v, _ in chosen.values()))[:6]} raised {type(e).__name__}: {str(e)[:120]}", case)
            continue
        parts = {str(pt.partname): pt for pt in p2.part.package.iter_parts()}
        for (src, rid), (v, absn) in chosen.items():
            sp = parts.get(src)
            ctx.count("consumer-target-" + ("absolute" if v.startswith("/") else "relative") + ("-dotted" if "./" in v else ""))
            if sp is None:
                ctx.fail("loader:source-part-missing", f"part {src} was not loaded (a Target leading to it was written as another reference shape)", case)
                continue
            try:
                got = str(sp.rels[rid].target_part.partname)
            except KeyError:
                got = None
            if got != absn:
                ctx.fail("loader:target-resolution", f"{src} {rid}: Target {v!r} resolves to {absn} (RFC 3986); the loaded package relates {got}", case)
        try:
            nsl = len(p2.slides)
        except Exception as e:  # noqa
            nsl = f"{type(e).__name__}: {str(e)[:80]}"
        if nsl != 3:
            ctx.fail("loader:target-resolution", f"slides loaded: {nsl} instead of 3 with Targets {case['targets']}", case)
    # written Targets follow renamed parts: scramble the slide part names, save (Targets serialised once), let the first
    # access to the slide collection rename the parts, save again
    for k in range(4 if ctx.quick else 40):
        prs = Presentation(io.BytesIO(base.getvalue()))
        nums = rng.sample(range(1, 12), 3)
        for sld, i in zip(list(prs.slides), nums):
            sld.part.partname = PackURI("/ppt/slides/slide%d.xml" % i)
            sld.shapes.add_textbox(0, 0, 9, 9).text_frame.text = "S%d" % i
        b1 = io.BytesIO(); prs.save(b1)
        p2 = Presentation(io.BytesIO(b1.getvalue()))
        b2 = io.BytesIO(); p2.save(b2)           # before any access to .slides
        texts = [[sh.text_frame.text for sh in s_.shapes if sh.has_text_frame] for s_ in p2.slides]   # renames the parts
        b3 = io.BytesIO(); p2.save(b3)
        case = {"slide-numbers": nums}
        ctx.case(key=("consumer-rename", k))
        for label, blob in (("saved before the slides were accessed", b2), ("saved after the parts were renamed", b3)):
            z = zipfile.ZipFile(io.BytesIO(blob.getvalue()))
            names_ = set(z.namelist())
            for n in names_:
                if not n.endswith(".rels"):
                    continue
                d_, f_ = n.rsplit("_rels/", 1)
                src = "/" + d_ + f_[: -len(".rels")] if n != "_rels/.rels" else "/"
                src_dir = (src.rsplit("/", 1)[0] or "/") if src != "/" else "/"
                for m in re.finditer(r'<Relationship [^>]*?/>', z.read(n).decode("utf-8")):
                    if "TargetMode=\"External\"" in m.group(0):
                        continue
                    tgt = re.search(r'Target="([^"]+)"', m.group(0)).group(1)
                    absn = rfc3986(src_dir, tgt)
                    if absn is None or absn[1:] not in names_:
                        ctx.fail("writer:stale-target", f"{label}: {n} holds Target {tgt!r}, which resolves to {absn}: no such member", case)
            try:
                p3 = Presentation(io.BytesIO(blob.getvalue()))
                t3 = [[sh.text_frame.text for sh in s_.shapes if sh.has_text_frame] for s_ in p3.slides]
            except Exception as e:  # noqa
                ctx.fail("writer:stale-target", f"{label}: re-opening raised {type(e).__name__}: {str(e)[:100]}", case)
                continue
            if t3 != texts:
                ctx.fail("writer:stale-target", f"{label}: slides read {t3} after re-opening, {texts} before", case)


    # part names that differ only in CASE are different names to the part-name arithmetic (and to a zip archive): two image
    # parts named that way keep their own bytes through load and save
    for k in range(2 if ctx.quick else 10):
        b1 = io.BytesIO(); Image.new("RGB", (3, 3), (200, 9, 9)).save(b1, "PNG")
        b2 = io.BytesIO(); Image.new("RGB", (5, 2), (9, 9, 200)).save(b2, "PNG")
        prs = Presentation()
        sl = prs.slides.add_slide(prs.slide_layouts[6])
        p1 = sl.shapes.add_picture(io.BytesIO(b1.getvalue()), 0, 0)
        p2 = sl.shapes.add_picture(io.BytesIO(b2.getvalue()), 0, 0)
        part2 = p2.part.related_part(p2._pic.blip_rId)
        name1 = str(p1.part.related_part(p1._pic.blip_rId).partname)
        twin = rng.choice([name1.replace("image", "IMAGE"), name1.replace("image", "Image"), name1.replace("/media/", "/MEDIA/"), name1[:-4] + ".PNG"])
        part2.partname = PackURI(twin)
        case = {"names": [name1, twin]}
        ctx.case(key=("consumer-case-twin", k, twin)); ctx.count("consumer-case-twin-names")
        try:
            bb = io.BytesIO(); prs.save(bb)
            p3 = Presentation(io.BytesIO(bb.getvalue()))
            got = [sh.image.blob for sh in p3.slides[0].shapes]
            b3 = io.BytesIO(); p3.save(b3)
            got2 = [sh.image.blob for sh in Presentation(io.BytesIO(b3.getvalue())).slides[0].shapes]
        except Exception as e:  # noqa
            ctx.fail("case-twin:raises", f"a package with parts {name1} and {twin} raised {type(e).__name__}: {str(e)[:120]}", case)
            continue
        want = [b1.getvalue(), b2.getvalue()]
        if got != want or got2 != want:
            ctx.fail("case-twin:bytes", f"parts {name1} and {twin} (names that differ in case only): after load {'and a second save ' if got == want else ''}the pictures "
                     f"show {'the same' if len(set(got2 if got == want else got)) == 1 else 'other'} bytes", case)
    # a main part directly at the package root (depth-1 part name, as some producers write): its relationships item is
    # /_rels/<name>.rels, its Targets are relative to "/"; load, save, re-open
    for k in range(3 if ctx.quick else 12):
        newname = rng.choice(["presentation.xml", "main.xml", "deck1.xml"])
        out = io.BytesIO()
        with zipfile.ZipFile(out, "w", zipfile.ZIP_DEFLATED) as zo:
            for name in zin.namelist():
                data = zin.read(name)
                if name == "ppt/presentation.xml":
                    name = newname
                elif name == "ppt/_rels/presentation.xml.rels":
                    name = "_rels/%s.rels" % newname
                    form = rng.choice(["relative", "absolute", "dotted"])
                    data = re.sub(rb'Target="(?!http)([^"/][^"]*)"', lambda m: b'Target="' + {"relative": b"ppt/", "absolute": b"/ppt/", "dotted": b"./ppt/"}[form] + m.group(1) + b'"', data)
                elif name == "_rels/.rels":
                    data = data.replace(b'Target="ppt/presentation.xml"', b'Target="%s"' % newname.encode())
                elif name == "[Content_Types].xml":
                    data = data.replace(b'PartName="/ppt/presentation.xml"', b'PartName="/%s"' % newname.encode())
                elif name.endswith(".rels"):
                    data = data.replace(b'Target="../presentation.xml"', b'Target="../../%s"' % newname.encode())
                zo.writestr(name, data)
        case = {"main-part": "/" + newname}
        ctx.case(key=("consumer-root-main", k, newname)); ctx.count("consumer-root-level-main-part")
        try:
            p2 = Presentation(io.BytesIO(out.getvalue()))
            n0 = len(p2.slides)
            b2 = io.BytesIO(); p2.save(b2)
        except Exception as e:  # noqa
            ctx.fail("root-part:raises", f"a package whose main part is /{newname} raised {type(e).__name__}: {str(e)[:120]} on open / save", case)
            continue
        z = zipfile.ZipFile(io.BytesIO(b2.getvalue()))
        bad = [n for n in z.namelist() if n.startswith("/") or "//" in n]
        want = "_rels/%s.rels" % newname
        if n0 != 3 or bad or want not in z.namelist():
            ctx.fail("root-part:rels-item-name", f"main part /{newname}: {n0} slides loaded; saved members with an empty segment {bad}; relationships item {want!r} "
                     f"{'present' if want in z.namelist() else 'absent'} (OPC: /_rels/{newname}.rels)", case)
            continue
        try:
            p3 = Presentation(io.BytesIO(b2.getvalue()))
            n3 = len(p3.slides)
        except Exception as e:  # noqa
            n3 = f"{type(e).__name__}: {str(e)[:80]}"
        if n3 != 3:
            ctx.fail("root-part:rels-item-name", f"main part /{newname}: after save and re-open the deck has {n3} slides instead of 3", case)


def correspond(ctx):
    from pptx.opc.packuri import PackURI

    consumers(ctx)

    rng = ctx.rng
    lines, impl, cases = [], [], []

    def add(case, line, impl_out):
        cases.append(case)
        lines.append(line)
        impl.append(impl_out)
        ctx.case(key=line)

    depth_acc = 3 if ctx.quick else 4
    all_names = names(depth_acc)
    for s in all_names:
        add(("acc", s), f"c19.acc {enc(s)}", impl_acc(PackURI, s))
        oracle_acc(ctx, s, PackURI)
        ctx.count("acc")
    for s in ["", "a", "ppt/x.xml", "./x", "../x", " /x", "x/"]:
        try:
            PackURI(s)
            r = enc(s)
            ctx.fail("mk-accepts:" + s, f"PackURI({s!r}) accepted a name not starting with '/'", {"op": "mk", "name": s})
        except (ValueError, IndexError):
            r = "ERR"
        add(("mk", s), f"c19.mk {enc(s)}", r)
        ctx.count("mk-reject")

    # pairs
    d_ex = 2 if ctx.quick else 3
    ex = names(d_ex)
    pairs = [(b, q) for b in ex for q in ex]
    if len(pairs) > 400000:
        pairs = rng.sample(pairs, 400000)
        ctx.note("depth-3 pair space sampled to 400000")
    deep = names(4) if not ctx.quick else names(3)
    nrand = 20000 if ctx.quick else 150000
    for _ in range(nrand):
        b, q = rng.choice(deep), rng.choice(deep)
        if rng.random() < 0.5:  # share a prefix, the interesting case
            bs = [x for x in b.split("/") if x]
            qs = [x for x in q.split("/") if x]
            k = rng.randint(0, len(bs))
            q = "/" + "/".join((bs[:k] + qs)[:5])
        pairs.append((b, q))
    for b, q in pairs:
        # b plays the role of a baseURI (a directory), q of a target part name
        u = PackURI(q)
        rel = u.relative_ref(b)
        add(("rel", q, b), f"c19.rel {enc(q)} {enc(b)}", enc(rel))
        back = impl_from(PackURI, b, rel)
        add(("from", b, rel), f"c19.from {enc(b)} {enc(rel)}", back)
        ctx.count("pair")
        ctx.count("pair-updepth-%d" % rel.count(".."))
        if back == "ERR" or dec(back) != q:
            ctx.fail(f"roundtrip:{b}->{q}", f"from_rel_ref({b!r}, relative_ref({q!r})={rel!r}) = {back if back=='ERR' else dec(back)!r} != {q!r}",
                     {"op": "roundtrip", "base": b, "target": q})
    # dotted / absolute references
    for b in names(2):
        for r in DOT_REFS:
            got = impl_from(PackURI, b, r)
            add(("from", b, r), f"c19.from {enc(b)} {enc(r)}", got)
            ctx.count("dotref")
            want = rfc3986(b, r)
            if want is not None and (got == "ERR" or dec(got) != want):
                ctx.fail(f"rfc3986:{b}+{r}", f"from_rel_ref({b!r},{r!r}) = {got if got=='ERR' else dec(got)!r}, RFC 3986 gives {want!r}",
                         {"op": "from", "base": b, "ref": r})
    ctx.sample({"op": "acc", "name": all_names[57], "impl": impl[57]})
    ctx.sample({"op": "rel+from", "case": cases[len(all_names) + 20], "impl": impl[len(all_names) + 20]})
    ctx.sample({"op": "from-dotted", "case": cases[-3], "impl": dec(impl[-3]) if impl[-3] != "ERR" else "ERR"})

    model = ctx.driver.run(lines)
    for c, i, m in zip(cases, impl, model):
        ctx.traces += 1
        if i != m:
            def show(x):
                try:
                    return " ".join(dec(t) if t not in ("ERR", "none") and not t.isdigit() else t for t in x.split(" "))
                except Exception:
                    return x
            ctx.disagree(c[0], list(c), show(i), show(m))


def search(ctx, hints):
    """Failing-input search on the real code alone (the L2 oracles in `correspond` are already that;
    when the model could not be built they have not run yet)."""
    if ctx.evaluations:
        return
    from pptx.opc.packuri import PackURI

    for s in names(3):
        ctx.case(key=s)
        try:
            oracle_acc(ctx, s, PackURI)
        except Exception as e:  # noqa
            ctx.fail("accessor-raises:" + s, f"accessor raised {e!r}", {"op": "acc", "name": s})
    ex = names(2)
    for b in ex:
        for q in ex:
            try:
                back = PackURI.from_rel_ref(b, PackURI(q).relative_ref(b))
            except Exception as e:  # noqa
                back = repr(e)
            if back != q:
                ctx.fail(f"roundtrip:{b}->{q}", f"round trip gives {back!r}", {"op": "roundtrip", "base": b, "target": q})


def replay(ctx, data):
    from pptx.opc.packuri import PackURI

    bad = 0
    for f in data.get("failing_inputs_on_real_code", []):
        c = f["case"]
        if c["op"] == "roundtrip":
            rel = PackURI(c["target"]).relative_ref(c["base"])
            back = PackURI.from_rel_ref(c["base"], rel)
            print(f"relative_ref={rel!r} from_rel_ref={back!r} expected={c['target']!r}")
            bad += back != c["target"]
        elif c["op"] == "acc":
            u = PackURI(c["name"])
            print(c["name"], u.baseURI, u.filename, u.ext, u.idx, u.membername, u.rels_uri)
            bad += 1
        elif c["op"] == "from":
            print(c, PackURI.from_rel_ref(c["base"], c["ref"]))
            bad += 1
    for d in data.get("correspondence_disagreements", []):
        print("model/impl disagreement:", d)
        bad += 1
    return 1 if bad else 0
