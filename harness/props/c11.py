"""C11 — accepted attribute values are exactly those the schema can represent."""
from __future__ import annotations

import math
from fractions import Fraction

from harness import common, leangen as lg, reflect, xsd, xsdprobe

ID = "C11"
LEAN_MODULES = ["PptxModel.Props.C11", "PptxModel.GenProps.C11"]
RULE = (
    "every (simple-type class, schema simple type) pair reached through an attribute declaration of a registered "
    "element class (reflection) x {measured accept bounds and one quantum inside/outside, 0, +-1, int32/int64/uint32 "
    "bounds, floats at k+1/2 quanta +- 1 ulp, wrong Python types (None, str, float for int types, bool, list), int "
    "subclasses with their own __str__ (enum members, Length)} for "
    "writing: the written string is validated by lxml against the attribute's XSD simple type; rejected values must "
    "raise TypeError/ValueError; for reading: every lexical alternative the schema type admits (bounds, '+5', ' 5 ', "
    "'N%', '1.5pt'.., true/false/1/0, every enumeration token) must be read; read(write(v)) within the type's quantum.  "
    "Conversion shapes are compared exactly with the Lean model on rationals.  Non-trivial = distinct (class, xsd type, value)."
)
ASSUMPTIONS = [
    "NaN and +-inf are outside the quantifier (recorded, not judged)",
    "IEEE rounding: the model is exact on rationals; float inputs are generated as exactly representable dyadic rationals, "
    "inputs within 1 ulp of a half-quantum threshold are compared and a disagreement there is a float artefact unless the "
    "written value leaves the schema's space",
    "the accept interval of each class is measured by probing validate() (bounds, bounds+-1, bisection), i.e. sampled",
]
TRUSTED = ["harness/xsdprobe.py (lxml XMLSchema over the shipped XSDs) as the lexical-space oracle"]

GEN = common.LEAN / "PptxModel" / "Gen" / "C11.lean"
GENP = common.LEAN / "PptxModel" / "GenProps" / "C11.lean"
XS = xsd.XS

BUILTIN_RANGE = {
    "int": (-2**31, 2**31 - 1), "long": (-2**63, 2**63 - 1), "unsignedInt": (0, 2**32 - 1), "unsignedShort": (0, 65535),
    "unsignedByte": (0, 255), "short": (-32768, 32767), "byte": (-128, 127), "integer": (None, None),
    "unsignedLong": (0, 2**64 - 1), "nonNegativeInteger": (0, None), "positiveInteger": (1, None),
}


# a tag-based class lookup cannot tell these apart: the class on the left serves the element c:order of a series
# (CT_UnsignedInt); c:order inside c:trendline has the unrelated type CT_Order, which python-pptx does not model
AMBIGUOUS = {("CT_UnsignedInt", "CT_Order")}


def pairs():
    S = xsd.load(common.REPO)
    reg = reflect.registered_classes()
    tt = S.tag_types()
    out = {}
    for tag, cls in reg.items():
        for prop, attr, st, kind, default in reflect.attr_decls(cls):
            for t in tt.get(tag, ()):
                if t in S.types and S.types[t].tag == xsd.q("complexType") and (cls.__name__, t[1]) not in AMBIGUOUS:
                    a = S.attributes(t).get(attr)
                    if a and a[0]:
                        out.setdefault((st, a[0]), []).append(f"{cls.__name__}.{prop}")
    return out, S


def int_facets(si):
    """(lo, hi) of the integer alternative of a simple type (through unions), or None"""
    alts = [si] + list(si.union)
    for a in alts:
        if a.builtin in BUILTIN_RANGE and a.enums is None:
            lo, hi = BUILTIN_RANGE[a.builtin]
            f = a.facets
            if "minInclusive" in f:
                lo = int(f["minInclusive"]) if lo is None else max(lo, int(f["minInclusive"]))
            if "maxInclusive" in f:
                hi = int(f["maxInclusive"]) if hi is None else min(hi, int(f["maxInclusive"]))
            if "minExclusive" in f:
                lo = int(f["minExclusive"]) + 1
            if "maxExclusive" in f:
                hi = int(f["maxExclusive"]) - 1
            return lo, hi
    return None


def accepts(st, v):
    try:
        st.validate(v)
        return True
    except (TypeError, ValueError):
        return False


def measure_int_interval(st):
    """largest interval [lo, hi] of integers around a seed that validate() accepts (bisection from an accepted seed)"""
    seed = next((s for s in (0, 1, 2, 100, 256, 1000, 914400) if accepts(st, s)), None)
    if seed is None:
        return None
    def edge(sign):
        good, step = seed, 1
        while accepts(st, good + sign * step) and step < 2**70:
            good += sign * step
            step *= 2
        # bisection between good (accepted) and good + sign*step (rejected)
        lo_, hi_ = good, good + sign * step
        while abs(hi_ - lo_) > 1:
            mid = (lo_ + hi_) // 2
            if accepts(st, mid):
                lo_ = mid
            else:
                hi_ = mid
        return lo_ if abs(good) < 2**70 else None
    return edge(-1), edge(+1)


def is_enum(st):
    from pptx.enum.base import BaseXmlEnum

    return isinstance(st, type) and issubclass(st, BaseXmlEnum)


def shape_of(st):
    """name of the Lean conversion model for a simple-type class (None = plain / not modelled)"""
    n = st.__name__
    return {"ST_Angle": "angle", "ST_PositiveFixedAngle": "pfa", "ST_Percentage": "pct", "ST_PositiveFixedPercentage": "pct",
            "ST_TextSpacingPercentOrPercentString": "pct", "ST_TextFontScalePercentOrPercentString": "fontscale",
            "ST_TextSpacingPoint": "spcpts"}.get(n)


def shape_of_name(name):
    class _N:  # noqa
        pass
    _N.__name__ = name.split("/")[0]
    return shape_of(_N)


def translate(ctx):
    common.use_repo()
    prs, S = pairs()
    rows = []
    for (st, xt), uses in sorted(prs.items(), key=lambda kv: (kv[0][0].__name__, kv[0][1])):
        if is_enum(st):
            continue
        si = S.simple(xt)
        fac = int_facets(si)
        iv = measure_int_interval(st) if shape_of(st) is None else None
        if fac is None or iv is None or iv[0] is None or iv[1] is None:
            continue
        try:
            sample = st.to_xml(iv[0])
        except Exception:
            continue
        if not isinstance(sample, str) or sample.lstrip("-").isdigit() is False:
            continue
        rows.append((st.__name__, xt[1], iv, fac))
    g = ["-- GENERATED by harness/props/c11.py: measured accept interval of each integer simple-type class vs the facet bounds",
         "-- of the schema simple type of the attribute it is used on", "import PptxModel.Model.SimpleTypes",
         "namespace Pptx.Gen.C11", "open Pptx.SimpleTypes", ""]
    p = ["-- GENERATED obligations over Gen/C11.lean", "import PptxModel.Gen.C11", "import PptxModel.Props.C11",
         "namespace Pptx.GenC11", "open Pptx.SimpleTypes Pptx.Gen.C11 Pptx.C11", ""]

    def opt(v):
        return "none" if v is None else f"(some ({v}))"

    for name, xn, (lo, hi), (flo, fhi) in rows:
        n = lg.ident(f"{name}_{xn}")
        g.append(f"def {n} : IntRow := {{ lo := {lo}, hi := {hi}, flo := {opt(flo)}, fhi := {opt(fhi)} }}")
        p.append(f"/-- every integer {name} accepts lies in the value space of {xn} -/")
        p.append(f"theorem {n}_within : {n}.within = true := by decide +kernel")
        p.append(f"theorem {n}_sound (v : Int) (h : {n}.accepts v) : {n}.inFacet v := within_sound {n} {n}_within v h\n")
    g.append("\nend Pptx.Gen.C11\n")
    p.append("end Pptx.GenC11\n")
    lg.write_if_changed(GEN, "\n".join(g))
    lg.write_if_changed(GENP, "\n".join(p))
    return rows


# ------------------------------------------------------------------------------------------ dynamic


def write_values(st, xt, si, iv, fac):
    vals = [None, "1", "x", 1.5, True, False, [], 0, 1, -1, 2, 100, 255, 256, 65535, 65536,
            2**31 - 1, 2**31, -2**31, -2**31 - 1, 2**32 - 1, 2**32, 2**63 - 1, 2**63, -2**63, 27273042316900, 27273042316901,
            -27273042329600, -27273042329601, 0.0, 1.0, 0.5, -0.5, 100.0, 360.0, 359.99999, 359.9999999, -1e-7, 1e-7,
            21474.83647, 21474.83648, -21474.83648, 132.0, 132.000001, 1.00001, 0.999999, 99.9999, 100.0001,
            "FF00aa", "ff00a", "GG0000", "+1234a", " 12345", "0x1234", "1_2345", "", "tx", "norm"]
    # int subclasses with their own __str__: members of the library's int-valued enumerations, Length objects
    from pptx.enum.text import MSO_ANCHOR, PP_ALIGN
    from pptx.util import Emu
    vals += [MSO_ANCHOR.MIDDLE, PP_ALIGN.CENTER, Emu(3), Emu(914400)]
    if iv:
        for b in iv:
            if b is not None:
                vals += [b - 1, b, b + 1]
    if fac:
        for b in fac:
            if b is not None:
                vals += [b - 1, b, b + 1]
    sh = shape_of(st)
    if sh:
        q = {"angle": 60000, "pfa": 60000, "pct": 100000, "fontscale": 1000, "spcpts": 1}[sh]
        for k in (0, 1, 7, 59999, 21599999, 21600000, 21600001, 13199999, 13200000, 2147483647):
            for d in (-1, 0, 1):
                fr = Fraction(2 * k + 1, 2 * q) + Fraction(d, 2**40)  # half-quantum thresholds +- a hair
                vals.append(float(fr)); vals.append(-float(fr))
                vals.append(float(Fraction(k, q)))
    return vals


def read_forms(si, st):
    """schema-valid lexical forms of the type (a sample of every alternative)"""
    out = []
    alts = [si] + list(si.union)
    for a in alts:
        if a.enums is not None:
            out += a.enums
        elif a.builtin in BUILTIN_RANGE:
            lo, hi = int_facets(a) or (None, None)
            for b in (lo, hi, 0, 1, 5):
                if b is not None and (lo is None or b >= lo) and (hi is None or b <= hi):
                    out += [str(b)]
            mid = 5 if (lo is None or lo <= 5) and (hi is None or hi >= 5) else lo
            if mid is not None:
                out += ["+%d" % mid if mid >= 0 else str(mid), " %d " % mid, "00%d" % mid if mid >= 0 else str(mid)]
        elif a.builtin == "boolean":
            out += ["true", "false", "1", "0"]
        elif a.builtin in ("double", "float", "decimal"):
            out += ["0", "1.5", "-2.25", "1e3" if a.builtin != "decimal" else "10.0", "+7"]
        elif a.builtin in ("string", "token", "hexBinary", "NCName", "anyURI"):
            for pat in a.patterns:
                if "%" in pat:
                    out += ["50%", "12.5%", "0%"] + (["-5%"] if pat.startswith("-?") else [])
                if "mm|cm|in|pt|pc|pi" in pat:
                    out += ["1.5pt", "2in", "3mm", "0.5cm", "1pc", "1pi"] + (["-3mm"] if pat.startswith("-?") else [])
            if a.builtin == "hexBinary":
                out += ["FF00AA", "ff00aa", "000000"]
    return out


def quantum_ok(st, v, back):
    sh = shape_of(st)
    try:
        if sh in ("angle", "pfa"):
            d = (Fraction(back) - Fraction(v)) % 360
            return min(d, 360 - d) <= Fraction(1, 60000)
        if sh == "pct":
            return abs(Fraction(back) - Fraction(v)) <= Fraction(1, 100000)
        if sh == "fontscale":
            return abs(Fraction(back) - Fraction(v)) <= Fraction(1, 1000)
        if isinstance(back, float) and isinstance(v, (int, float)) and not isinstance(v, bool):
            return back == float(v)
        if sh == "spcpts":
            return abs(int(back) - int(v)) < 127
        if isinstance(v, str):
            return str(back).upper() == v.upper()
        if isinstance(v, bool) or isinstance(back, bool):
            return bool(back) == bool(v)
        return back == v
    except Exception:
        return False


def model_line(st, v):
    """driver line for a conversion-shape class and a float/int value (exact rational)"""
    sh = shape_of(st)
    if sh is None or isinstance(v, bool) or not isinstance(v, (int, float)) or (isinstance(v, float) and not math.isfinite(v)):
        return None
    fr = Fraction(v)
    return f"c11.{sh} {fr.numerator} {fr.denominator}"


def proxy_enum_sweep(ctx, keyfn=None):
    """"Reading the written form returns the value written": every member of every enumeration-valued property of the
    object model (table of harness/oplab.py), assigned through the property and read back through it"""
    import enum
    import random

    from harness import oplab
    from harness.props.c09 import build_deck

    prs = build_deck()
    world = oplab.discover(prs)
    rng = random.Random(7)
    for p in oplab.prop_table():
        objs = world.objs.get(p.kind, [])
        if not objs:
            continue
        classes = []
        for _ in range(80):
            try:
                v = p.gen(rng)
            except Exception:  # noqa
                continue
            if isinstance(v, enum.Enum) and type(v) not in classes:
                classes.append(type(v))
        for cls in classes:
            for m in cls:
                if m.name == "MIXED" or "MIXED" in m.name:
                    continue      # documented as a return value only
                obj, path = objs[0]
                ctx.case(key=("proxy-enum", p.kind, p.name, m.name))
                writable = bool(getattr(m, "xml_value", "x"))
                try:
                    setattr(obj, p.name, m)
                except (TypeError, ValueError) as e:
                    if writable and m.name not in ("MIXED",):
                        ctx.count(f"proxy-enum-conditional:{p.kind}.{p.name}")   # e.g. a property not applicable to this object
                    continue
                except Exception as e:  # noqa
                    ctx.fail(f"enum-readback:{p.kind}.{p.name}:{m.name}", f"{path}.{p.name} = {cls.__name__}.{m.name} raised {type(e).__name__}", {"property": p.name, "member": m.name})
                    continue
                try:
                    got = getattr(obj, p.name)
                except Exception as e:  # noqa
                    got = ("raises", type(e).__name__)
                want = p.norm(m) if p.norm else m
                # (an int-valued enum member equals a bool or an int with the same value: compare types too)
                if type(got) is not type(want) or got != want:
                    key = keyfn(p, cls, m) if keyfn else f"enum-readback:{p.kind}.{p.name}:{m.name}"
                    ctx.fail(key, f"{path}.{p.name} = {cls.__name__}.{m.name} reads back {got!r}", {"property": p.name, "member": m.name})
                else:
                    ctx.count("proxy-enum-roundtrip")


def proxy_boolean_spellings(ctx):
    """the READING side of boolean attributes at the object model: xsd:boolean has four lexical forms (1, true, 0, false);
    the library writes two of them, other producers the other two - every boolean property reads each form as its value"""
    from pptx import Presentation
    from pptx.chart.data import CategoryChartData
    from pptx.enum.chart import XL_CHART_TYPE

    C = "http://schemas.openxmlformats.org/drawingml/2006/chart"
    A = "http://schemas.openxmlformats.org/drawingml/2006/main"
    prs = Presentation(); slide = prs.slides.add_slide(prs.slide_layouts[6])
    tbl = slide.shapes.add_table(2, 2, 0, 0, 99, 99).table
    tb = slide.shapes.add_textbox(0, 0, 9, 9); run = tb.text_frame.paragraphs[0].add_run(); run.text = "x"
    cd = CategoryChartData(); cd.categories = ["a", "b"]; cd.add_series("s", [1, 2])
    chart = slide.shapes.add_chart(XL_CHART_TYPE.LINE_MARKERS, 0, 0, 99, 99, cd).chart
    chart.has_legend = True
    run.font.bold = True; run.font.italic = True
    tblPr = tbl._tbl.tblPr
    sites = [("table.%s" % n, tblPr, a, (lambda n=n: getattr(tbl, n))) for n, a in
             (("first_row", "firstRow"), ("first_col", "firstCol"), ("last_row", "lastRow"), ("last_col", "lastCol"),
              ("horz_banding", "bandRow"), ("vert_banding", "bandCol"))]
    rPr = run._r.rPr
    sites += [("font.bold", rPr, "b", lambda: tb.text_frame.paragraphs[0].runs[0].font.bold),
              ("font.italic", rPr, "i", lambda: tb.text_frame.paragraphs[0].runs[0].font.italic)]
    plot = chart.plots[0]
    plot.vary_by_categories = False
    vc = plot._element.find("{%s}varyColors" % C)
    sites.append(("plot.vary_by_categories", vc, "val", lambda: chart.plots[0].vary_by_categories))
    ser = plot.series[0]; ser.smooth = True
    sm = ser._element.find("{%s}smooth" % C)
    sites.append(("series.smooth", sm, "val", lambda: chart.plots[0].series[0].smooth))
    chart.legend.include_in_layout = False
    ov = chart.legend._element.find("{%s}overlay" % C)
    sites.append(("legend.include_in_layout", ov, "val", lambda: chart.legend.include_in_layout))
    ax = chart.value_axis; ax.visible = False
    de = ax._element.find("{%s}delete" % C)
    sites.append(("axis.visible(c:delete)", de, "val", lambda: not chart.value_axis.visible))
    ax.tick_labels.number_format_is_linked = True
    nf = ax._element.find("{%s}numFmt" % C)
    sites.append(("tick_labels.number_format_is_linked", nf, "sourceLinked", lambda: chart.value_axis.tick_labels.number_format_is_linked))
    plot.has_data_labels = True
    dl = plot.data_labels; dl.show_value = True
    sv = dl._element.find("{%s}showVal" % C)
    sites.append(("data_labels.show_value", sv, "val", lambda: chart.plots[0].data_labels.show_value))
    for name, el, attr, get in sites:
        if el is None:
            continue
        for text, want in (("1", True), ("true", True), ("0", False), ("false", False)):
            el.set(attr, text)
            try:
                got = get()
            except Exception as e:  # noqa
                got = f"{type(e).__name__}: {str(e)[:80]}"
            ctx.case(key=("boolean-spelling", name, text)); ctx.count("proxy-boolean-spellings")
            if got is not want:
                ctx.fail("boolean-spelling:" + name, f'{name}: the attribute {attr}="{text}" (a lexical form of xsd:boolean) reads {got!r}', {"property": name, "text": text})


def proxy_exact_integers(ctx):
    """values that ARE representable are written exactly: every font size from 1 pt to 60 pt in hundredths of a point, every
    line spacing / space before in hundredths of a point up to 40 pt, every 127th EMU margin - assigned as the Length the
    caller would use and compared with the integer in the XML (a conversion through floats loses one unit on a few percent)"""
    from pptx.util import Centipoints, Emu

    from harness.props.c09 import build_deck

    prs = build_deck()
    sp = prs.slides[1].shapes[0]
    para = sp.text_frame.paragraphs[0]
    run = para.runs[0]
    A = "{http://schemas.openxmlformats.org/drawingml/2006/main}"
    for cp in range(100, 6001):
        run.font.size = Centipoints(cp)
        got = run._r.find(A + "rPr").get("sz")
        if got != str(cp):
            ctx.fail("inexact:font.size", f"font.size = Centipoints({cp}) is written sz={got!r}", {"property": "font.size", "value": cp})
            break
    for cp in range(0, 4001, 3):
        para.space_before = Centipoints(cp)
        got = para._p.find(A + "pPr").find(A + "spcBef").find(A + "spcPts").get("val")
        if got != str(cp):
            ctx.fail("inexact:paragraph.space_before", f"space_before = Centipoints({cp}) is written val={got!r}", {"property": "space_before", "value": cp})
            break
    for emu in list(range(0, 300000, 127)) + [2**31 - 1, 914400, 91440, 45720]:
        sp.text_frame.margin_left = Emu(emu)
        got = sp.text_frame._txBody.find(A + "bodyPr").get("lIns")
        if got != str(emu) and not (got is None and int(sp.text_frame.margin_left) == emu):   # the default is not written
            ctx.fail("inexact:text_frame.margin_left", f"margin_left = Emu({emu}) is written lIns={got!r}", {"property": "margin_left", "value": emu})
            break
    ctx.count("exact-integer-assignments", 5901 + 1334 + 2367)
    ctx.case(key=("proxy-exact-integers",))


def proxy_lexical_reads(ctx):
    """"every schema-valid lexical form met in a document can be read" - through the PROXY properties, some of which read
    an attribute by hand instead of through its declaration: universal measures and percent strings put into the XML"""
    from harness.props.c09 import build_deck

    prs = build_deck()
    s1 = prs.slides[1]
    sp = s1.shapes[0]
    pic = [s for s in s1.shapes if type(s).__name__ == "Picture"][0]
    tbl = [s for s in s1.shapes if getattr(s, "has_table", False)][0].table
    cell = tbl.cell(0, 0)
    cell.margin_left = 5
    para = sp.text_frame.paragraphs[0]
    para.line_spacing = 1.5
    para.space_before = 12700
    pic.crop_left = 0.1
    sp.text_frame.margin_left = 5
    A = "{http://schemas.openxmlformats.org/drawingml/2006/main}"
    cases = [
        ("cell.margin_left", lambda: cell._tc.tcPr, "marL", "0.1in", lambda: cell.margin_left, 91440),
        ("cell.margin_top", lambda: cell._tc.tcPr, "marT", "2.54cm", lambda: cell.margin_top, 914400),
        ("text_frame.margin_left", lambda: sp.text_frame._txBody.bodyPr, "lIns", "0.5in", lambda: sp.text_frame.margin_left, 457200),
        ("shape.left", lambda: sp._element.spPr.xfrm.off, "x", "1in", lambda: sp.left, 914400),
        ("shape.top", lambda: sp._element.spPr.xfrm.off, "y", "72pt", lambda: sp.top, 914400),
        ("paragraph.line_spacing", lambda: para._p.pPr.lnSpc.spcPct, "val", "150%", lambda: para.line_spacing, 1.5),
        ("paragraph.line_spacing", lambda: para._p.pPr.lnSpc.spcPct, "val", "112.5%", lambda: para.line_spacing, 1.125),
        ("picture.crop_left", lambda: pic._element.blipFill.srcRect, "l", "25%", lambda: pic.crop_left, 0.25),
        ("picture.crop_left", lambda: pic._element.blipFill.srcRect, "l", "12.5%", lambda: pic.crop_left, 0.125),
    ]
    for name, el, attr, lex, read, want in cases:
        ctx.case(key=("proxy-read", name, lex))
        try:
            el().set(attr, lex)
            got = read()
        except Exception as e:  # noqa
            ctx.fail(f"unreadable:{name}:{lex}", f"{name}: the schema-valid value {attr}={lex!r} cannot be read: {type(e).__name__}: {str(e)[:100]}", {"property": name, "lexical": lex})
            continue
        if abs(float(got) - float(want)) > 1e-6 * max(1.0, abs(float(want))):
            ctx.fail(f"misread:{name}:{lex}", f"{name}: {attr}={lex!r} reads {got!r}, expected {want!r}", {"property": name, "lexical": lex})
        else:
            ctx.count("proxy-lexical-read")


def proxy_hex_colour_reads(ctx):
    """xsd:hexBinary admits lower-case digits: a colour another producer wrote as val="ff8800" is the colour FF8800 through
    every colour proxy (fill, line, font), and HSL/system colours of other lexical forms do not disturb the reading"""
    from pptx.dml.color import RGBColor
    from harness.props.c09 import build_deck

    prs = build_deck()
    sp = prs.slides[1].shapes[0]
    sp.fill.solid(); sp.fill.fore_color.rgb = RGBColor(1, 2, 3)
    sp.line.color.rgb = RGBColor(1, 2, 3)
    run = sp.text_frame.paragraphs[0].runs[0]
    run.font.color.rgb = RGBColor(1, 2, 3)
    sites = [
        ("fill.fore_color.rgb", lambda: sp._element.spPr.xpath("./a:solidFill/a:srgbClr")[0], lambda: sp.fill.fore_color.rgb),
        ("line.color.rgb", lambda: sp._element.spPr.xpath("./a:ln/a:solidFill/a:srgbClr")[0], lambda: sp.line.color.rgb),
        ("font.color.rgb", lambda: run._r.xpath("./a:rPr/a:solidFill/a:srgbClr")[0], lambda: run.font.color.rgb),
    ]
    for name, el, read in sites:
        for lex in ("ff8800", "Ff88aB", "abcdef", "00000a", "FFFFFF", "09afAF"):
            ctx.case(key=("proxy-hex-read", name, lex))
            try:
                el().set("val", lex)
                got = read()
            except Exception as e:  # noqa
                ctx.fail(f"unreadable:{name}:hex-lower-case", f"{name}: the schema-valid colour val={lex!r} cannot be read: {type(e).__name__}: {str(e)[:100]}", {"property": name, "lexical": lex})
                continue
            if tuple(got) != tuple(bytes.fromhex(lex)):
                ctx.fail(f"misread:{name}:hex", f"{name}: val={lex!r} reads {got!r}", {"property": name, "lexical": lex})
            else:
                ctx.count("proxy-hex-read")


def correspond(ctx):
    proxy_enum_sweep(ctx)
    proxy_lexical_reads(ctx)
    proxy_hex_colour_reads(ctx)
    prs, S = pairs()
    probe = xsdprobe.Probe(common.REPO, [xt for (_, xt) in prs])
    lines, impl, meta = [], [], []
    for (st, xt), uses in sorted(prs.items(), key=lambda kv: (kv[0][0].__name__, kv[0][1])):
        si = S.simple(xt)
        name = f"{st.__name__}/{xt[1]}"
        ctx.count("pairs")
        if is_enum(st):
            # reading: every schema token; writing: every member
            for tok in (si.enums or []):
                ctx.case(key=(name, "read", tok))
                try:
                    st.from_xml(tok)
                except ValueError:
                    ctx.fail(f"unreadable:{name}:{tok}", f"{st.__name__}.from_xml({tok!r}) raises although {tok!r} is in {xt[1]} ({uses[0]})",
                             {"type": name, "lexical": tok})
            for m in st:
                if m.xml_value:
                    ctx.case(key=(name, "write", m.name))
                    if not probe.valid(xt, st.to_xml(m)):
                        ctx.fail(f"invalid-lexical:{name}", f"{st.__name__}.{m.name} written as {st.to_xml(m)!r}, not valid for {xt[1]}", {"type": name, "value": m.name})
            for bad in (None, 7, "ctr", 1.5):
                try:
                    st.validate(bad)
                except (TypeError, ValueError):
                    pass
            continue
        fac = int_facets(si)
        iv = measure_int_interval(st)
        # what a type accepts, and what it writes, is a function of the VALUE: the same values again in reverse order (equal
        # but differently typed values now meet in the other order: 1 before True, 2 before 2.0, 0 before False) must get
        # the same verdict and the same text
        vs = write_values(st, xt, si, iv, fac)

        def verdict(v):
            try:
                return ("ok", st.to_xml(v))
            except (TypeError, ValueError) as e:
                return ("rejected", type(e).__name__)
            except Exception as e:  # noqa
                return ("raised", type(e).__name__)
        first = [verdict(v) for v in vs]
        second = [verdict(v) for v in reversed(vs)][::-1]
        for v, a, b in zip(vs, first, second):
            if a != b:
                ctx.fail(f"history-dependent:{name}", f"{st.__name__}.to_xml({v!r}) gave {a} in one order of calls and {b} in another (an equal value of another type "
                         f"was converted in between)", {"type": name, "value": repr(v)})
                break
        ctx.count("order-independence-checked")
        for v in write_values(st, xt, si, iv, fac):
            key = (name, "write", repr(v))
            if key in ctx.nontrivial:
                continue
            ctx.case(key=key)
            special = isinstance(v, float) and not math.isfinite(v)
            try:
                s = st.to_xml(v)
            except (TypeError, ValueError):
                ctx.count("rejected")
                continue
            except Exception as e:  # noqa
                ctx.fail(f"wrong-exception:{name}", f"{st.__name__}.to_xml({v!r}) raised {type(e).__name__} (not TypeError/ValueError)", {"type": name, "value": repr(v)})
                continue
            ctx.count("accepted")
            if not isinstance(s, str) or not probe.valid(xt, s):
                ctx.fail(f"invalid-lexical:{name}:{type(v).__name__}", f"{st.__name__}.to_xml({v!r}) = {s!r} is not in the lexical space of {xt[1]} (used by {uses[0]})",
                         {"type": name, "value": repr(v), "written": repr(s)})
                continue
            try:
                back = st.from_xml(s)
            except Exception as e:  # noqa
                ctx.fail(f"unreadable-own-output:{name}", f"{st.__name__}.from_xml({s!r}) raised {type(e).__name__}", {"type": name, "value": repr(v)})
                continue
            if not quantum_ok(st, v, back):
                ctx.fail(f"roundtrip:{name}", f"{st.__name__}: wrote {v!r} as {s!r}, read back {back!r}", {"type": name, "value": repr(v)})
            ml = model_line(st, v)
            if ml:
                lines.append(ml); impl.append(s); meta.append((name, v))
        for lex in read_forms(si, st):
            ctx.case(key=(name, "read", lex))
            if not probe.valid(xt, lex):
                ctx.count("generated-read-form-not-schema-valid(skipped)")
                continue
            try:
                st.from_xml(lex)
                ctx.count("read-ok")
            except Exception as e:  # noqa
                ctx.fail(f"unreadable:{name}:{lex}", f"{st.__name__}.from_xml({lex!r}) raised {type(e).__name__} although the form is valid for {xt[1]} ({uses[0]})",
                         {"type": name, "lexical": lex})
    attr_history_independence(ctx)
    proxy_exact_integers(ctx)
    proxy_boolean_spellings(ctx)
    rejected_is_noop(ctx)
    proxy_rejected_noop(ctx)
    out = ctx.driver.run(lines)
    for (name, v), i, m in zip(meta, impl, out):
        ctx.traces += 1
        if i != m:
            # within a hair of a half-quantum threshold the float product may round the other way
            fr = Fraction(v)
            q = {"angle": 60000, "pfa": 60000, "pct": 100000, "fontscale": 1000, "spcpts": 1}[shape_of_name(name)]
            scaled = fr * q
            near_half = abs((scaled * 2) % 2 - 1) < Fraction(1, 2**20) or (shape_of_name(name) == "fontscale" and min(scaled % 1, 1 - scaled % 1) < Fraction(1, 2**20))
            try:
                diff = abs(int(i) - int(m))
                close = near_half and (diff <= 1 or diff >= 21600000 - 1)
            except Exception:
                close = False
            if close:
                ctx.count("float-artefact-at-half-quantum")
            else:
                ctx.disagree("conversion", {"type": name, "value": repr(v)}, i, m)
    if meta:
        ctx.sample({"type": meta[0][0], "value": repr(meta[0][1]), "written": impl[0], "model": out[0]})
    ctx.extra["pairs"] = len(prs)


def rejected_is_noop(ctx):
    """'every other value is rejected ... before anything is written': on a real element whose attribute already holds a
    valid value, an assignment that raises must leave the attribute exactly as it was (both declaration kinds)"""
    from pptx.oxml.xmlchemy import OxmlElement

    reg = reflect.registered_classes()
    bad_values = [object(), "not-a-value", 10**30, -10**30, 1.5, None, [], 2**31, -1]
    seen = set()
    for tag, cls in sorted(reg.items()):
        nsp = None
        for prop, attr, st, kind, default in reflect.attr_decls(cls):
            if (cls, prop) in seen:
                continue
            seen.add((cls, prop))
            good = None
            for cand in (1, 2, 100, 1000, 914400, 0.5, 50.0, True, "FF0000", "rId1", "x"):
                try:
                    good = st.to_xml(cand)
                    if good is not None and (default is None or cand != default):
                        break
                except Exception:  # noqa
                    good = None
            if good is None and is_enum(st):
                mem = [m for m in st if m.xml_value and m != default]
                good = mem[0].xml_value if mem else None
            if not isinstance(good, str):
                continue
            if nsp is None:
                from harness.props.c10 import clark_to_nsp
                nsp = clark_to_nsp(tag)
            for bv in bad_values:
                el = OxmlElement(nsp)
                el.set(attr, good)
                try:
                    setattr(el, prop, bv)
                    continue  # accepted (or None = removal for optional attributes): not a rejection
                except (TypeError, ValueError):
                    pass
                except Exception:  # noqa
                    continue
                ctx.case(key=("reject-noop", cls.__name__, prop, repr(bv)[:20]))
                ctx.count("rejected-assignments-checked")
                if el.get(attr) != good:
                    ctx.fail(f"rejected-assignment-wrote:{kind}", f"{cls.__name__}.{prop} = {bv!r} raised, but the attribute {attr} changed from {good!r} to {el.get(attr)!r}",
                             {"class": cls.__name__, "prop": prop, "value": repr(bv)})
                    break


def attr_history_independence(ctx):
    """what an attribute's setter accepts is a function of the value: for every attribute declaration, an equal value of
    ANOTHER type (1.0 for 1, True for 1, 228600.0 for 228600) gets the same verdict on a fresh element before and after
    the valid value was assigned to another element of the same class (a cache keyed by the Python value conflates them)"""
    from pptx.oxml.xmlchemy import OxmlElement

    reg = reflect.registered_classes()
    seen = set()
    for tag, cls in sorted(reg.items()):
        nsp = None
        for prop, attr, st, kind, default in reflect.attr_decls(cls):
            if (cls, prop) in seen:
                continue
            seen.add((cls, prop))
            if nsp is None:
                from harness.props.c10 import clark_to_nsp
                nsp = clark_to_nsp(tag)

            def verdict(v):
                el = OxmlElement(nsp)
                try:
                    setattr(el, prop, v)
                    return ("ok", el.get(attr))
                except (TypeError, ValueError) as e:
                    return ("rejected", type(e).__name__)
                except Exception as e:  # noqa
                    return ("raised", type(e).__name__)
            for cand in (1, 2, 100, 228600, 0):
                twins = [float(cand)] + ([True] if cand == 1 else []) + ([False] if cand == 0 else [])
                before = [verdict(t) for t in twins]      # nothing equal has been assigned yet through this declaration
                if verdict(cand)[0] != "ok":
                    continue
                verdict(cand)
                after = [verdict(t) for t in twins]
                ctx.case(key=("attr-history", cls.__name__, prop, cand))
                ctx.count("attribute-history-independence-checked")
                if before != after:
                    ctx.fail(f"history-dependent-attribute:{kind}", f"{cls.__name__}.{prop}: {twins} got {before} on a fresh element, {after} after {cand!r} had been "
                             f"assigned to another element", {"class": cls.__name__, "prop": prop, "value": repr(cand)})
                break


def proxy_rejected_noop(ctx):
    """'every other value is rejected with TypeError or ValueError BEFORE anything is written', at the level a caller sees:
    every out-of-domain value the property table knows, for every read/write property, assigned through the proxy; when
    the assignment raises, every XML part of the package must be byte-for-byte what it was (setters written by hand that
    remove or create an element first and convert the value afterwards)"""
    import random

    from lxml import etree

    from harness import oplab, xmllab
    from harness.props.c09 import build_deck

    import io as _io
    import os as _os

    from pptx import Presentation

    from harness.props.c12 import bare
    for variant in ("as built", "bare"):
        _proxy_rejected_noop(ctx, variant)


def _proxy_rejected_noop(ctx, variant):
    import io as _io
    import random

    from lxml import etree
    from pptx import Presentation

    from harness import oplab, xmllab
    from harness.props.c09 import build_deck
    from harness.props.c12 import bare

    prs = build_deck()
    if variant == "bare":
        # no optional empty container anywhere: every setter starts from "nothing there yet"; objects are discovered on
        # another instance of the same file (discovery itself creates containers)
        b = _io.BytesIO(); prs.save(b)
        data, _n = bare(b.getvalue())
        world = oplab.discover(Presentation(_io.BytesIO(data)))
        prs = Presentation(_io.BytesIO(data))
    else:
        world = oplab.discover(prs)
    pkg = prs.part.package

    def snap():
        return {pn: etree.tostring(el) for pn, el in xmllab.xml_parts(pkg)}
    for p in oplab.prop_table():
        objs = world.objs.get(p.kind, [])
        if not objs or p.bad is None:
            continue
        vals, seen = [], set()
        for i in range(60):
            try:
                v = p.bad(random.Random(i))
            except Exception:  # noqa
                continue
            if repr(v) not in seen:
                seen.add(repr(v)); vals.append(v)
        for (obj, path), v in [(o, v) for o in (objs if len(objs) <= 4 else [objs[0], objs[len(objs) // 2], objs[-1]]) for v in vals]:
            # once on the object as built, once after an in-domain value was assigned (an element of the setter's own making)
            for prime in (False, True):
                try:
                    live = eval(path, {"prs": prs})  # noqa: S307 - paths are produced by harness/oplab.py
                    if prime:
                        setattr(live, p.name, p.gen(random.Random(len(vals))))
                except Exception:  # noqa
                    continue
                before = snap()
                try:
                    setattr(live, p.name, v)
                    ctx.count("proxy-out-of-domain-accepted")
                    continue
                except (TypeError, ValueError):
                    pass
                except Exception as e:  # noqa
                    ctx.count(f"proxy-out-of-domain-raised:{type(e).__name__}")
                    continue
                ctx.case(key=("proxy-reject-noop", p.kind, p.name, repr(v)[:30], prime))
                ctx.count("proxy-rejected-assignments-checked")
                after = snap()
                changed = [pn for pn in before if after.get(pn) != before[pn]]
                if changed:
                    ctx.fail(f"rejected-assignment-wrote:proxy:{p.kind}.{p.name}", f"[deck {variant}] {path}.{p.name} = {v!r} was rejected, but {changed[0]} changed"
                             + (" (after an in-domain assignment)" if prime else ""), {"property": p.name, "value": repr(v), "deck": variant})
                    break


def search(ctx, hints):
    if not ctx.evaluations:
        try:
            correspond(ctx)
        except common.LeanError:
            pass


def replay(ctx, data):
    for f in data.get("failing_inputs_on_real_code", []):
        print(f["what"])
    return 1
