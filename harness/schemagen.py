"""Translator: the ISO-29500-4 transitional XSDs shipped in /repo/spec -> the schema tables of the Lean tree model
(`lean/PptxModel/Gen/C03.lean`), and the encoder of real lxml trees into the driver's line protocol.

Numbering (tags, attributes, complex types, simple types) is deterministic (sorted names), so the harness and the
generated Lean file agree without sharing state."""
from __future__ import annotations

from lxml import etree

from harness import common, leangen as lg, xsd

XS = xsd.XS
GEN = common.LEAN / "PptxModel" / "Gen" / "C03.lean"

BUILTIN_INT = {
    "int": (-2**31, 2**31 - 1), "long": (-2**63, 2**63 - 1), "unsignedInt": (0, 2**32 - 1), "unsignedShort": (0, 65535),
    "unsignedByte": (0, 255), "short": (-32768, 32767), "byte": (-128, 127), "integer": (None, None),
    "unsignedLong": (0, 2**64 - 1), "nonNegativeInteger": (0, None), "positiveInteger": (1, None),
}


# ------------------------------------------------------------------------------------------------- regex -> Re
class ReParse:
    """the subset of XSD regular expressions the schemas use: literals, escapes, [classes], ( | ), ? * + {n}"""

    def __init__(self, s):
        self.s, self.i = s, 0

    def peek(self):
        return self.s[self.i] if self.i < len(self.s) else None

    def alt(self):
        parts = [self.seq()]
        while self.peek() == "|":
            self.i += 1
            parts.append(self.seq())
        out = parts[0]
        for p in parts[1:]:
            out = ("alt", out, p)
        return out

    def seq(self):
        items = []
        while self.peek() is not None and self.peek() not in "|)":
            items.append(self.post())
        if not items:
            return ("eps",)
        out = items[-1]
        for it in reversed(items[:-1]):
            out = ("seq", it, out)
        return out

    def post(self):
        a = self.atom()
        while self.peek() in ("?", "*", "+", "{"):
            c = self.peek()
            self.i += 1
            if c == "?":
                a = ("alt", a, ("eps",))
            elif c == "*":
                a = ("star", a)
            elif c == "+":
                a = ("seq", a, ("star", a))
            else:
                j = self.s.index("}", self.i)
                n = int(self.s[self.i:j])
                self.i = j + 1
                out = ("eps",)
                for _ in range(n):
                    out = ("seq", a, out)
                a = out
        return a

    def atom(self):
        c = self.peek()
        self.i += 1
        if c == "(":
            r = self.alt()
            assert self.peek() == ")"
            self.i += 1
            return r
        if c == "[":
            ranges = []
            while self.peek() != "]":
                lo = self.s[self.i]
                self.i += 1
                if lo == "\\":
                    lo = self.s[self.i]; self.i += 1
                if self.peek() == "-" and self.s[self.i + 1] != "]":
                    hi = self.s[self.i + 1]
                    self.i += 2
                else:
                    hi = lo
                ranges.append(("range", ord(lo), ord(hi)))
            self.i += 1
            out = ranges[0]
            for r in ranges[1:]:
                out = ("alt", out, r)
            return out
        if c == "\\":
            c = self.s[self.i]
            self.i += 1
            if c == "d":
                return ("range", 48, 57)
            return ("range", ord(c), ord(c))
        if c == ".":
            return ("range", 0, 0x10FFFF)
        return ("range", ord(c), ord(c))


def re_lean(t):
    k = t[0]
    if k == "eps":
        return "Re.eps"
    if k == "range":
        return f"(Re.range {t[1]} {t[2]})"
    if k == "star":
        return f"(Re.star {re_lean(t[1])})"
    return f"(Re.{k} {re_lean(t[1])} {re_lean(t[2])})"


def parse_re(s):
    p = ReParse(s)
    r = p.alt()
    assert p.i == len(s), (s, p.i)
    return r


# ------------------------------------------------------------------------------------------------- tables
class Tables:
    def __init__(self, repo=None):
        self.S = S = xsd.load(repo or common.REPO)
        self.notes = {"open_wildcard": [], "open_duplicate_tag": [], "approx_nested_group": sorted(getattr(S, "approx", set())),
                      "unmodelled_simple": set()}
        ctypes = sorted(k for k, el in S.types.items() if el.tag == xsd.q("complexType"))
        cms = {}
        for k in ctypes:
            cms[k] = S.content_model(k)
        self.notes["approx_nested_group"] = sorted(getattr(S, "approx", set()))
        tags, attrs, stypes = set(), set(), set()
        for k in ctypes:
            for sl in cms[k]:
                tags.update(sl.tags)
            for a, (ty, use, d) in S.attributes(k).items():
                attrs.add(a)
                if ty:
                    stypes.add(ty)
        for (ns, l) in S.elements:
            tags.add("{%s}%s" % (ns, l))
        self.tag_id = {t: i + 1 for i, t in enumerate(sorted(tags))}
        self.attr_id = {a: i + 1 for i, a in enumerate(sorted(attrs))}
        self.st_id = {t: i + 1 for i, t in enumerate(sorted(stypes))}   # 0 = any
        # complex types: index 0 = open (anything), 1 = closed leaf (simple content, no attributes); then the schema's
        self.ct_id = {k: i + 2 for i, k in enumerate(ctypes)}
        self.ctypes, self.cms = ctypes, cms

    def child_type(self, ty):
        if ty is None:
            return 0
        if ty in self.ct_id:
            return self.ct_id[ty]
        return 1   # element of a simple type (text content): no children, no attributes

    # -- simple types
    def atoms(self, tname):
        si = self.S.simple(tname)
        out = []

        def walk(s):
            if s.union:
                for m in s.union:
                    walk(m)
                return
            b = s.builtin
            if b in BUILTIN_INT and s.enums is not None:
                out.append("Atom.ienum [" + ", ".join("(%d)" % int(v) for v in s.enums) + "]")
            elif b in BUILTIN_INT:
                lo, hi = BUILTIN_INT[b]
                f = s.facets
                if "minInclusive" in f:
                    lo = int(f["minInclusive"]) if lo is None else max(lo, int(f["minInclusive"]))
                if "minExclusive" in f:
                    lo = int(f["minExclusive"]) + 1 if lo is None else max(lo, int(f["minExclusive"]) + 1)
                if "maxInclusive" in f:
                    hi = int(f["maxInclusive"]) if hi is None else min(hi, int(f["maxInclusive"]))
                if "maxExclusive" in f:
                    hi = int(f["maxExclusive"]) - 1 if hi is None else min(hi, int(f["maxExclusive"]) - 1)
                o = lambda v: "none" if v is None else f"(some ({v}))"  # noqa: E731
                out.append(f"Atom.int {o(lo)} {o(hi)}")
            elif b in ("double", "float", "decimal"):
                if s.facets:
                    self.notes["unmodelled_simple"].add(f"{tname[1]}: facets {sorted(s.facets)} on {b} not modelled")
                out.append("Atom.dec")
            elif b == "boolean":
                out.append("Atom.bool")
            elif b == "hexBinary" and "length" in s.facets:
                out.append(f"Atom.hex {int(s.facets['length'])}")
            elif s.enums is not None:
                lit = lambda v: '"' + v.replace("\\", "\\\\").replace('"', '\\"') + '".toList'  # noqa: E731
                out.append("Atom.enum [" + ", ".join(lit(v) for v in s.enums) + "]")
            elif s.patterns:
                # several pattern facets in one restriction step are alternatives; across derivation steps they are
                # conjunctive -- the schemas only have single-step patterns
                r = parse_re(s.patterns[0])
                for p in s.patterns[1:]:
                    r = ("alt", r, parse_re(p))
                out.append(f"Atom.pat {re_lean(r)}")
            else:
                if b not in ("string", "token", "anyURI", "NCName", "ID", "normalizedString"):
                    self.notes["unmodelled_simple"].add(f"{tname[1]}: builtin {b} treated as any")
                elif s.facets:
                    self.notes["unmodelled_simple"].add(f"{tname[1]}: facets {sorted(s.facets)} on {b} not modelled")
                out.append("Atom.any")

        walk(si)
        return out

    # -- complex types
    def ct_row(self, k):
        S = self.S
        slots = self.cms[k]
        ct = S.types[k]
        open_kids = False
        seen = {}
        kids, smin, smax = [], [], []
        for si, sl in enumerate(slots):
            if sl.wild:
                open_kids = True
            for t in sl.tags:
                if t in seen:
                    open_kids = True
                    self.notes["open_duplicate_tag"].append(k[1])
                seen[t] = si
                kids.append((self.tag_id[t], si, self.child_type(sl.types.get(t))))
            if sl.min and sl.min > 0:
                smin.append((si, sl.min))
            if sl.max is not None:
                smax.append((si, sl.max))
        if open_kids and k[1] not in self.notes["open_duplicate_tag"]:
            self.notes["open_wildcard"].append(k[1])
        mixed_any = any(True for _ in ct.iter(xsd.q("anyAttribute")))
        attrs = []
        for a, (ty, use, d) in sorted(S.attributes(k).items()):
            attrs.append((self.attr_id[a], self.st_id.get(ty, 0) if ty else 0, use == "required"))
        b = lambda x: "true" if x else "false"  # noqa: E731
        return ("{ kids := [" + ", ".join(f"({a}, {s}, {t})" for a, s, t in kids) + "], smin := [" + ", ".join(f"({a}, {m})" for a, m in smin)
                + "], smax := [" + ", ".join(f"({a}, {m})" for a, m in smax) + f"], openKids := {b(open_kids)}, attrs := ["
                + ", ".join(f"({a}, {s}, {b(r)})" for a, s, r in attrs) + f"], openAttrs := {b(mixed_any)} }}")

    def lean_source(self):
        rows = ["{ kids := [], smin := [], smax := [], openKids := true, attrs := [], openAttrs := true }",
                "{ kids := [], smin := [], smax := [], openKids := false, attrs := [], openAttrs := false }"]
        rows += [self.ct_row(k) for k in self.ctypes]
        st_rows = ["[Atom.any]"] + ["[" + ", ".join(self.atoms(t)) + "]" for t in sorted(self.st_id)]
        roots = []
        for (ns, l), el in sorted(self.S.elements.items()):
            if el.get("type"):
                ty = self.S.qname(el, el.get("type"))
                roots.append(f"({self.tag_id['{%s}%s' % (ns, l)]}, {self.child_type(ty)})")
        out = ["-- GENERATED by harness/schemagen.py from /repo/spec/ISO-IEC-29500-4/xsd (pml, dml-main, dml-chart, dml-picture, shared):",
               "-- complex types as slot tables, simple types as unions of lexical atoms, global elements as roots.",
               "import PptxModel.Model.XTree", "namespace Pptx.Gen.C03", "open Pptx.XTree", "",
               lg.chunked_def("ctRows", "CT", rows, per=24), lg.chunked_def("stRows", "STy", st_rows, per=24),
               "def rootRows : List (Nat × Nat) := [" + ", ".join(roots) + "]", "",
               "def schema : Schema := { types := ctRows.toArray, simple := stRows.toArray, roots := rootRows }", "",
               f"-- {len(self.ctypes)} complex types, {len(self.st_id)} simple types, {len(self.tag_id)} element tags, {len(self.attr_id)} attribute names",
               "end Pptx.Gen.C03", ""]
        return "\n".join(out)

    def write(self):
        lg.write_if_changed(GEN, self.lean_source())

    # -- encoding of real trees
    def encode(self, root):
        """pre-order token list: tag/nkids/attrs; attrs = aid=codepoints~... or '-' (comments and PIs are skipped)"""
        toks = []

        def enc_val(v):
            return ".".join(str(ord(c)) for c in v) if v else "-"

        def walk(el):
            kids = [k for k in el if isinstance(k.tag, str)]
            at = []
            for a, v in el.attrib.items():
                at.append(f"{self.attr_id.get(a, 0)}={enc_val(v)}")
            toks.append(f"{self.tag_id.get(el.tag, 0)}/{len(kids)}/{'~'.join(at) or '-'}")
            for k in kids:
                walk(k)

        walk(root)
        return " ".join(toks)


_tables = None


def tables():
    global _tables
    if _tables is None:
        _tables = Tables()
    return _tables
