"""Operation laboratory: discovers the objects of a presentation, knows the read/write properties of the public object
model with their documented domains, and applies seeded operation sequences (property assignments and method calls) to
the REAL library.  Used by C03 (validity after any history), C09 (read-back / independence) and C12 (read surface).

Every random choice is drawn from the `random.Random` passed in, so (deck, seed, length) replays a history exactly."""
from __future__ import annotations

import datetime as dt
import io
from dataclasses import dataclass, field
from pathlib import Path

from harness import common

REJECT = (ValueError, TypeError, IndexError, KeyError, NotImplementedError)
MAX_SLIDES, MAX_SHAPES, MAX_PARAS, MAX_CELLS = 5, 12, 4, 6


class Skip(Exception):
    """operation not applicable to the object at hand (no op performed)"""


# ---------------------------------------------------------------------------------------------------------------
# value domains


def _enums():
    from pptx.enum import action, chart, dml, shapes, text, lang
    return action, chart, dml, shapes, text, lang


def d_emu(rng):
    from pptx.util import Cm, Emu, Inches, Mm, Pt
    return rng.choice([
        0, 1, 12700, 914400, rng.randint(0, 12192000), rng.randint(0, 2**31 - 1), Inches(rng.randint(0, 10) / 4), Pt(rng.randint(0, 400)),
        Cm(rng.randint(0, 30)), Mm(rng.randint(0, 200)), Emu(rng.randint(0, 10**7)), 27273042316900,
    ])


def d_coord(rng):
    v = d_emu(rng)
    return rng.choice([v, v, -int(v) if int(v) < 2**40 else v, -27273042329600, 27273042316900])


def d_bad_len(rng):
    return rng.choice([-1, 27273042316901, "12", 1.5, 2**63, object()])


def d_tri(rng):
    return rng.choice([True, False, None])


def d_bool(rng):
    return rng.choice([True, False])


def d_float(rng, lo, hi):
    return rng.choice([lo, hi, 0.0 if lo <= 0 <= hi else lo, round(rng.uniform(lo, hi), rng.choice([0, 1, 3, 6])), rng.uniform(lo, hi)])


def d_str(rng):
    alphabet = "abc XYZ019 -_é漢😀&<>\"'"
    return "".join(rng.choice(alphabet) for _ in range(rng.choice([0, 1, 3, 8, 20])))


def d_text(rng):
    s = d_str(rng)
    return rng.choice([s, s + "\n" + d_str(rng), s + "\v" + d_str(rng), "\n", ""])


def d_rgb(rng):
    from pptx.dml.color import RGBColor
    return RGBColor(rng.randrange(256), rng.randrange(256), rng.randrange(256))


def d_enum(rng, cls, none_ok=False, skip=()):
    ms = [m for m in cls if m.name not in skip and getattr(m, "xml_value", "x") is not None or True]
    ms = [m for m in ms if m.name not in skip]
    if none_ok and rng.random() < 0.2:
        return None
    return rng.choice(ms)


def d_date(rng):
    return dt.datetime(rng.choice([1601, 1900, 1999, 2024, 9999]), rng.randint(1, 12), rng.randint(1, 28), rng.randint(0, 23), rng.randint(0, 59), rng.randint(0, 59))


# ---------------------------------------------------------------------------------------------------------------
# property table


@dataclass
class Prop:
    kind: str
    name: str
    gen: object                      # rng -> in-domain value
    none_ok: bool = False
    quantum: float = 0.0             # allowed |read - assigned| (numeric properties)
    bad: object = None               # rng -> out-of-domain value (must raise TypeError / ValueError)
    norm: object = None              # assigned value -> expected reading (when not the identity)
    reopen: bool = True
    note: str = ""


def d_c32(rng):
    return rng.choice([0, 45720, 91440, -1, 2**31 - 1, -2**31, rng.randint(-2**31, 2**31 - 1), rng.randint(0, 10**6)])


def d_spc(rng):
    from pptx.util import Emu, Pt
    return rng.choice([Pt(0), Pt(1584), Pt(12), Pt(rng.randint(0, 158400) / 100), Emu(rng.randint(0, 20116800))])


def props():
    from pptx.util import Emu, Pt
    action, chart, dml, shapes, text, lang = _enums()
    E = d_enum
    P = []
    add = lambda *a, **k: P.append(Prop(*a, **k))  # noqa: E731
    # -- presentation
    d_slide = lambda r: r.choice([914400, 51206400, 9144000, 6858000, 12192000, r.randint(914400, 51206400)])  # noqa: E731
    add("prs", "slide_width", d_slide, bad=lambda r: r.choice([914399, 51206401, 0, None, "9144000"]))
    add("prs", "slide_height", d_slide, bad=lambda r: r.choice([914399, 51206401, 0, None, "9144000"]))
    # -- slide
    add("slide", "name", d_str)
    # -- any shape
    for n in ("left", "top"):
        add("shape", n, d_coord, bad=lambda r: r.choice(["1", 1.5, 2**63]))
    for n in ("width", "height"):
        add("shape", n, d_emu, bad=d_bad_len)
    add("shape", "rotation", lambda r: r.choice([0, 0.0, 45, 90.5, 359.99, 360, -90, 720.25, 1e-4, r.uniform(-1000, 1000)]),
        quantum=1 / 60000 + 1e-9, norm=lambda v: v % 360.0, bad=lambda r: r.choice(["a", None]), note="not for group/graphic frame rot? (CT_Transform2D has rot)")
    add("shape", "name", d_str)
    # -- autoshape / picture / connector specific
    add("picture", "crop_left", lambda r: d_float(r, -1.0, 1.0), quantum=1e-5 + 1e-12)
    add("picture", "crop_right", lambda r: d_float(r, -1.0, 1.0), quantum=1e-5 + 1e-12)
    add("picture", "crop_top", lambda r: d_float(r, -1.0, 1.0), quantum=1e-5 + 1e-12)
    add("picture", "crop_bottom", lambda r: d_float(r, -1.0, 1.0), quantum=1e-5 + 1e-12)
    add("picture", "auto_shape_type", lambda r: E(r, shapes.MSO_SHAPE), bad=lambda r: r.choice(["rect", 99999]))
    for n in ("begin_x", "begin_y", "end_x", "end_y"):
        add("connector", n, d_emu)
    add("shadow", "inherit", d_bool)
    add("hlink", "address", lambda r: r.choice(["https://example.com/a?b=1&c=2", "http://x.y/é", "mailto:a@b.c", d_str(r) or "x"]), none_ok=True)
    # -- text frame
    add("text_frame", "auto_size", lambda r: E(r, text.MSO_AUTO_SIZE, skip=("MIXED",)), none_ok=True)
    add("text_frame", "word_wrap", d_tri, none_ok=True)
    add("text_frame", "vertical_anchor", lambda r: E(r, text.MSO_ANCHOR, skip=("MIXED",)), none_ok=True)
    for n in ("margin_left", "margin_right", "margin_top", "margin_bottom"):
        add("text_frame", n, d_c32, bad=lambda r: r.choice(["1", 2.5, 2**31, -2**31 - 1]))
    add("text_frame", "text", d_text)
    # -- paragraph
    add("paragraph", "alignment", lambda r: E(r, text.PP_ALIGN, skip=("MIXED",)), none_ok=True)
    add("paragraph", "level", lambda r: r.randint(0, 8), bad=lambda r: r.choice([-1, 9, "1"]))
    add("paragraph", "line_spacing", lambda r: d_spc(r) if r.random() < 0.45 else r.choice([1.0, 1.5, 0.9, 2, 0.0, 132.0, r.uniform(0, 132)]), none_ok=True, quantum=127,
        bad=lambda r: r.choice([-0.5, 132.5, Emu(20116801), "1", 133, 150, 20116800, -1]))
    add("paragraph", "space_before", d_spc, none_ok=True, quantum=127, bad=lambda r: r.choice([Emu(20116801), Emu(-1), 1.5, "3"]))
    add("paragraph", "space_after", d_spc, none_ok=True, quantum=127, bad=lambda r: r.choice([Emu(20116801), Emu(-1), 1.5, "3"]))
    add("paragraph", "text", d_text, norm=lambda v: v.replace("\n", "\v"))
    # -- run
    add("run", "text", lambda r: d_str(r))
    # -- font
    add("font", "bold", d_tri, none_ok=True)
    add("font", "italic", d_tri, none_ok=True)
    add("font", "underline", lambda r: r.choice([True, False, None, E(r, text.MSO_UNDERLINE, skip=("MIXED",))]), none_ok=True,
        norm=lambda v: True if v is text.MSO_UNDERLINE.SINGLE_LINE else False if v is text.MSO_UNDERLINE.NONE else v)
    add("font", "size", d_pt, none_ok=True, quantum=127, bad=lambda r: r.choice(["12", 12.5, Emu(0), Pt(4001), Pt(0.5)]))
    add("font", "name", lambda r: r.choice(["Calibri", "Arial Black", "MS ゴシック", d_str(r) or "A"]), none_ok=True)
    add("font", "language_id", lambda r: E(r, lang.MSO_LANGUAGE_ID, skip=("MIXED",)), none_ok=True)
    # -- line
    add("line", "width", lambda r: r.choice([0, 12700, 9525, r.randint(0, 20116800), 20116800]), bad=lambda r: r.choice([-1, 20116801, "3"]))
    add("line", "dash_style", lambda r: E(r, dml.MSO_LINE, skip=("DASH_STYLE_MIXED",)), none_ok=True)
    # -- colour
    add("color", "rgb", d_rgb, bad=lambda r: r.choice(["FF0000", (1, 2, 3), None]))
    add("color", "theme_color", lambda r: E(r, dml.MSO_THEME_COLOR, skip=("MIXED", "NOT_THEME_COLOR")))
    add("color", "brightness", lambda r: d_float(r, -1.0, 1.0), quantum=1e-5 + 1e-9, bad=lambda r: r.choice([1.01, -1.5, "0.5"]))
    # -- fills
    add("gradfill", "gradient_angle", lambda r: r.choice([0, 45, 90.0, 359.5, 360, -45, 725.5, r.uniform(0, 360)]), quantum=1 / 60000 + 1e-9,
        norm=lambda v: v % 360.0)
    add("gradstop", "position", lambda r: d_float(r, 0.0, 1.0), quantum=1e-5 + 1e-9, bad=lambda r: r.choice([-0.1, 1.1]))
    add("pattfill", "pattern", lambda r: E(r, dml.MSO_PATTERN, skip=("MIXED",)), none_ok=True)
    # -- table
    for n in ("first_row", "first_col", "last_row", "last_col", "horz_banding", "vert_banding"):
        add("table", n, d_bool)
    for n in ("margin_left", "margin_right", "margin_top", "margin_bottom"):
        add("cell", n, d_c32, none_ok=True, bad=lambda r: r.choice(["1", 2.5, 2**31]))
    add("cell", "vertical_anchor", lambda r: E(r, text.MSO_ANCHOR, skip=("MIXED",)), none_ok=True)
    add("cell", "text", d_text)
    # (the table's own height / width is the sum of these: values are kept where the sum stays inside the type)
    add("row", "height", lambda r: r.choice([0, 1, 370840, r.randint(0, 2**31 - 1)]))
    add("column", "width", lambda r: r.choice([0, 1, 914400, r.randint(0, 2**31 - 1)]))
    # -- chart
    add("chart", "chart_style", lambda r: r.randint(1, 48), none_ok=True, bad=lambda r: r.choice([0, 49, "2"]))
    add("chart", "has_legend", d_bool)
    add("chart", "has_title", d_bool)
    add("legend", "horz_offset", lambda r: d_float(r, -1.0, 1.0), quantum=1e-9, bad=lambda r: r.choice([1.5, -1.01]))
    add("legend", "include_in_layout", d_bool, none_ok=True)
    add("legend", "position", lambda r: E(r, chart.XL_LEGEND_POSITION, skip=("CUSTOM",)))
    add("axis", "has_major_gridlines", d_bool)
    add("axis", "has_minor_gridlines", d_bool)
    add("axis", "has_title", d_bool)
    add("axis", "major_tick_mark", lambda r: E(r, chart.XL_TICK_MARK))
    add("axis", "minor_tick_mark", lambda r: E(r, chart.XL_TICK_MARK))
    add("axis", "maximum_scale", lambda r: r.choice([0, 1.5, -3, 1e6, r.uniform(-1e3, 1e3)]), none_ok=True)
    add("axis", "minimum_scale", lambda r: r.choice([0, 1.5, -3, 1e6, r.uniform(-1e3, 1e3)]), none_ok=True)
    add("axis", "reverse_order", d_bool)
    add("axis", "tick_label_position", lambda r: E(r, chart.XL_TICK_LABEL_POSITION))
    add("axis", "visible", d_bool, bad=lambda r: r.choice(["yes", 1, None]))
    add("valaxis", "crosses", lambda r: E(r, chart.XL_AXIS_CROSSES, skip=("CUSTOM",)))
    add("valaxis", "crosses_at", lambda r: r.choice([0, 2.5, -10, r.uniform(-100, 100)]), none_ok=True)
    add("valaxis", "major_unit", lambda r: r.choice([1, 0.25, 10, r.uniform(0.001, 1000)]), none_ok=True, bad=lambda r: r.choice([0, -1, -0.5, "x"]))
    add("valaxis", "minor_unit", lambda r: r.choice([1, 0.25, 10, r.uniform(0.001, 1000)]), none_ok=True, bad=lambda r: r.choice([0, -1, -0.5, "x"]))
    add("ticklabels", "number_format", lambda r: r.choice(["General", "0.00", "#,##0", '0.0"%"', "yyyy-mm-dd"]))
    add("ticklabels", "number_format_is_linked", d_bool, none_ok=True)   # None removes @sourceLinked, which reads as linked (upstream's unit tests assign it)
    add("ticklabels", "offset", lambda r: r.randint(0, 1000), bad=lambda r: r.choice([-1, 1001, "5"]))
    add("barplot", "gap_width", lambda r: r.randint(0, 500), bad=lambda r: r.choice([-1, 501]))
    add("barplot", "overlap", lambda r: r.randint(-100, 100), bad=lambda r: r.choice([-101, 101]))
    add("bubbleplot", "bubble_scale", lambda r: r.randint(0, 300), none_ok=True, bad=lambda r: r.choice([-1, 301]))
    add("plot", "has_data_labels", d_bool)
    add("plot", "vary_by_categories", d_bool)
    add("datalabels", "number_format", lambda r: r.choice(["General", "0.00", "#,##0", "0%"]))
    add("datalabels", "number_format_is_linked", d_bool, none_ok=True)
    add("datalabels", "position", lambda r: E(r, chart.XL_LABEL_POSITION, skip=("MIXED",)), none_ok=True, bad=lambda r: r.choice([chart.XL_LABEL_POSITION.MIXED, 99, "ctr"]))
    for n in ("show_category_name", "show_legend_key", "show_percentage", "show_series_name", "show_value"):
        add("datalabels", n, d_bool)
    add("datalabel", "position", lambda r: E(r, chart.XL_LABEL_POSITION, skip=("MIXED",)), none_ok=True, bad=lambda r: r.choice([chart.XL_LABEL_POSITION.MIXED, 99]))
    add("datalabel", "has_text_frame", d_bool)
    add("marker", "size", lambda r: r.randint(2, 72), none_ok=True, bad=lambda r: r.choice([1, 73, "5"]))
    add("marker", "style", lambda r: E(r, chart.XL_MARKER_STYLE), none_ok=True)
    add("barseries", "invert_if_negative", d_bool)
    add("lineseries", "smooth", d_bool)
    return P


def d_pt(rng):
    """font sizes: ST_TextFontSize is 100..400000 hundredths of a point"""
    from pptx.util import Emu, Pt
    return Pt(rng.choice([1, 12, 18.5, 400, 4000, rng.randint(10, 40000) / 10, 0.01 * rng.randint(100, 400000)])) if rng.random() < 0.8 else \
        Emu(rng.randint(12700, 50800000))


# ---------------------------------------------------------------------------------------------------------------
# discovery


@dataclass
class World:
    objs: dict = field(default_factory=dict)   # kind -> [(object, path)]

    def add(self, kind, obj, path):
        self.objs.setdefault(kind, []).append((obj, path))

    def pick(self, rng, kind):
        lst = self.objs.get(kind)
        if not lst:
            raise Skip(kind)
        return rng.choice(lst)


def _walk_text_frame(w, tf, path, creating=True):
    w.add("text_frame", tf, path)
    for i, p in enumerate(list(tf.paragraphs)[:MAX_PARAS]):
        pp = f"{path}.paragraphs[{i}]"
        w.add("paragraph", p, pp)
        if creating:
            w.add("font", p.font, pp + ".font")
        for j, r in enumerate(list(p.runs)[:3]):
            rp = f"{pp}.runs[{j}]"
            w.add("run", r, rp)
            if creating:
                w.add("font", r.font, rp + ".font")
                w.add("hlink", r.hyperlink, rp + ".hyperlink")


def _walk_fill(w, fill, path):
    from pptx.enum.dml import MSO_FILL
    w.add("fill", fill, path)
    try:
        t = fill.type
    except Exception:  # noqa
        return
    if t == MSO_FILL.SOLID:
        w.add("color", fill.fore_color, path + ".fore_color")
    elif t == MSO_FILL.PATTERNED:
        w.add("pattfill", fill, path)
        w.add("color", fill.fore_color, path + ".fore_color")
        w.add("color", fill.back_color, path + ".back_color")
    elif t == MSO_FILL.GRADIENT:
        w.add("gradfill", fill, path)
        try:
            for i, s in enumerate(fill.gradient_stops):
                w.add("gradstop", s, f"{path}.gradient_stops[{i}]")
                w.add("color", s.color, f"{path}.gradient_stops[{i}].color")
        except Exception:  # noqa
            pass


def _walk_line(w, line, path):
    w.add("line", line, path)
    _walk_fill(w, line.fill, path + ".fill")


def _walk_chart(w, chart, path):
    from pptx.chart.plot import BarPlot, BubblePlot
    w.add("chart", chart, path)
    if chart.has_legend:
        w.add("legend", chart.legend, path + ".legend")
    for an in ("category_axis", "value_axis"):
        try:
            ax = getattr(chart, an)
        except ValueError:
            continue
        ap = f"{path}.{an}"
        w.add("axis", ax, ap)
        if type(ax).__name__ == "ValueAxis":
            w.add("valaxis", ax, ap)
        w.add("ticklabels", ax.tick_labels, ap + ".tick_labels")
        w.add("chartformat", ax.format, ap + ".format")
        if ax.has_major_gridlines:
            w.add("chartformat", ax.major_gridlines.format, ap + ".major_gridlines.format")
        if ax.has_title:
            w.add("axistitle", ax.axis_title, ap + ".axis_title")
    if chart.has_title:
        w.add("charttitle", chart.chart_title, path + ".chart_title")
    for i, pl in enumerate(chart.plots):
        pp = f"{path}.plots[{i}]"
        w.add("plot", pl, pp)
        if isinstance(pl, BarPlot):
            w.add("barplot", pl, pp)
        if isinstance(pl, BubblePlot):
            w.add("bubbleplot", pl, pp)
        if pl.has_data_labels:
            w.add("datalabels", pl.data_labels, pp + ".data_labels")
        for j, s in enumerate(list(pl.series)[:3]):
            sp = f"{pp}.series[{j}]"
            w.add("series", s, sp)
            cn = type(s).__name__
            if cn == "BarSeries":
                w.add("barseries", s, sp)
            if cn in ("LineSeries",):
                w.add("lineseries", s, sp)
            if hasattr(s, "marker"):
                w.add("marker", s.marker, sp + ".marker")
            if hasattr(s, "format"):
                w.add("chartformat", s.format, sp + ".format")
            if hasattr(s, "points"):
                try:
                    n = len(s.points)
                except Exception:  # noqa
                    n = 0
                for k in range(min(n, 2)):
                    w.add("point", s.points[k], f"{sp}.points[{k}]")
                    w.add("datalabel", s.points[k].data_label, f"{sp}.points[{k}].data_label")


def _walk_shapes(w, shapes, path, depth=0):
    from pptx.shapes.autoshape import Shape
    from pptx.shapes.connector import Connector
    from pptx.shapes.graphfrm import GraphicFrame
    from pptx.shapes.group import GroupShape
    from pptx.shapes.picture import Picture
    w.add("shapes", shapes, path)
    for i, sh in enumerate(list(shapes)[:MAX_SHAPES]):
        sp = f"{path}[{i}]"
        w.add("shape", sh, sp)
        if sh.is_placeholder:
            w.add("placeholder", sh, sp)
            cn = type(sh).__name__
            if cn in ("PicturePlaceholder", "ChartPlaceholder", "TablePlaceholder"):
                w.add("ph_" + cn[:-11].lower(), sh, sp)
        if isinstance(sh, Shape):
            w.add("autoshape", sh, sp)
            if sh.has_text_frame:
                _walk_text_frame(w, sh.text_frame, sp + ".text_frame")
            try:
                _walk_fill(w, sh.fill, sp + ".fill")
                _walk_line(w, sh.line, sp + ".line")
                w.add("shadow", sh.shadow, sp + ".shadow")
                w.add("action", sh.click_action, sp + ".click_action")
            except Exception:  # noqa
                pass
        elif isinstance(sh, Picture):
            w.add("picture", sh, sp)
            _walk_line(w, sh.line, sp + ".line")
            w.add("shadow", sh.shadow, sp + ".shadow")
            w.add("action", sh.click_action, sp + ".click_action")
        elif isinstance(sh, Connector):
            w.add("connector", sh, sp)
            _walk_line(w, sh.line, sp + ".line")
        elif isinstance(sh, GroupShape):
            w.add("group", sh, sp)
            if depth < 2:
                _walk_shapes(w, sh.shapes, sp + ".shapes", depth + 1)
        elif isinstance(sh, GraphicFrame):
            try:
                ok_table = sh.has_table and all(len(r.cells) == len(sh.table.columns) for r in sh.table.rows)
            except Exception:  # noqa  (thinned decks: rows with missing cells)
                ok_table = False
            if sh.has_table and not ok_table:
                continue
            if sh.has_table:
                t = sh.table
                tp = sp + ".table"
                w.add("table", t, tp)
                for r, row in enumerate(list(t.rows)[:3]):
                    w.add("row", row, f"{tp}.rows[{r}]")
                for c, col in enumerate(list(t.columns)[:3]):
                    w.add("column", col, f"{tp}.columns[{c}]")
                n = 0
                for r in range(min(len(t.rows), 3)):
                    for c in range(min(len(t.columns), 3)):
                        cell = t.cell(r, c)
                        cp = f"{tp}.cell({r},{c})"
                        w.add("cell", cell, cp)
                        if n < MAX_CELLS:
                            _walk_text_frame(w, cell.text_frame, cp + ".text_frame")
                            _walk_fill(w, cell.fill, cp + ".fill")
                        n += 1
            elif sh.has_chart:
                try:
                    _walk_chart(w, sh.chart, sp + ".chart")
                except Exception:  # noqa  (corpus charts of kinds the library does not wrap)
                    pass


def discover(prs, last_only=False):
    w = World()
    w.add("prs", prs, "prs")
    slides = list(prs.slides)
    idxs = list(range(len(slides)))
    idxs = idxs[-MAX_SLIDES:] if len(idxs) > MAX_SLIDES else idxs
    for i in idxs:
        s = slides[i]
        sp = f"prs.slides[{i}]"
        w.add("slide", s, sp)
        w.add("background", s.background, sp + ".background")
        _walk_shapes(w, s.shapes, sp + ".shapes")
        if s.has_notes_slide:
            ns = s.notes_slide
            w.add("notes", ns, sp + ".notes_slide")
            if ns.notes_text_frame is not None:
                _walk_text_frame(w, ns.notes_text_frame, sp + ".notes_slide.notes_text_frame")
    try:
        layouts = list(prs.slide_layouts)
    except IndexError:      # a presentation part without any slide master (thinned input decks)
        layouts = []
    for i, l in enumerate(layouts):
        w.add("layout", l, f"prs.slide_layouts[{i}]")
        if i < 3:
            w.add("background", l.background, f"prs.slide_layouts[{i}].background")
    for i, m in enumerate(list(prs.slide_masters)[:2]):
        w.add("background", m.background, f"prs.slide_masters[{i}].background")
    return w


# ---------------------------------------------------------------------------------------------------------------
# media


def media():
    tf = common.REPO / "tests" / "test_files"
    ft = common.REPO / "features" / "steps" / "test_files"
    return {
        "images": [str(tf / "python-powered.png"), str(tf / "monty-truth.png"), str(tf / "python-icon.jpeg"), str(tf / "python.bmp"), str(ft / "sonic.gif"), str(ft / "72-dpi.tiff")],
        "movie": str(tf / "dummy.mp4"),
        "ole": [str(ft / "shp-embedded-xlsx.xlsx"), str(ft / "shp-embedded-docx.docx"), str(ft / "shp-embedded-pptx.pptx")],
    }


# ---------------------------------------------------------------------------------------------------------------
# method operations


def _geom(rng):
    """position and size inside the slide-scale range (the out-of-range corner is probed separately, see C03)"""
    g = lambda lo: rng.choice([0, 1, 914400, rng.randint(lo, 12192000), rng.randint(lo, 2**31 - 1)])  # noqa: E731
    return g(-12192000), g(-12192000), g(0), g(0)


def m_add_slide(rng, w):
    prs, _ = w.pick(rng, "prs")
    lay = rng.choice(list(prs.slide_layouts))
    prs.slides.add_slide(lay)
    return f"prs.slides.add_slide({lay.name!r})"


def m_add_shape(rng, w):
    from pptx.enum.shapes import MSO_SHAPE
    sh, p = w.pick(rng, "shapes")
    t = rng.choice(list(MSO_SHAPE))
    s = sh.add_shape(t, *_geom(rng))
    if rng.random() < 0.5:
        s.text_frame.text = d_text(rng)
    return f"{p}.add_shape({t.name})"


def m_add_textbox(rng, w):
    sh, p = w.pick(rng, "shapes")
    tb = sh.add_textbox(*_geom(rng))
    tb.text_frame.text = d_text(rng)
    return f"{p}.add_textbox"


def m_add_picture(rng, w):
    sh, p = w.pick(rng, "shapes")
    img = rng.choice(media()["images"])
    x, y, cx, cy = _geom(rng)
    kw = rng.choice([{}, {"width": cx}, {"height": cy}, {"width": cx, "height": cy}])
    sh.add_picture(img, x, y, **kw)
    return f"{p}.add_picture({Path(img).name},{sorted(kw)})"


def m_add_connector(rng, w):
    from pptx.enum.shapes import MSO_CONNECTOR
    sh, p = w.pick(rng, "shapes")
    t = rng.choice([m for m in MSO_CONNECTOR if m.name != "MIXED"])
    sh.add_connector(t, *[int(d_emu(rng)) for _ in range(4)])
    return f"{p}.add_connector({t.name})"


def m_connect(rng, w):
    c, p = w.pick(rng, "connector")
    s, sp = w.pick(rng, "autoshape")
    n = rng.choice([0, 1, 2, 3, 0, 1, 2, 3, -1, 4, 99, 2**32, "1", None, 1.5])   # a third outside the four connection points
    order = rng.choice(["begin", "end", "begin,end", "end,begin"])
    for which in order.split(","):
        s2, _ = w.pick(rng, "autoshape")
        (c.begin_connect if which == "begin" else c.end_connect)(rng.choice([s, s2]), n)
    return f"{p}.connect({order},{sp},{n})"


def m_add_group(rng, w):
    sh, p = w.pick(rng, "shapes")
    if p.count(".shapes") > 2:
        raise Skip("depth")
    members = []
    if rng.random() < 0.5 and not p.endswith(".shapes.shapes"):
        cands = [s for s in list(sh)[:MAX_SHAPES] if not s.is_placeholder]
        members = rng.sample(cands, min(len(cands), rng.choice([1, 2])))
    g = sh.add_group_shape(members)
    if rng.random() < 0.7:
        g.shapes.add_shape(1, *_geom(rng))
    return f"{p}.add_group_shape({len(members)} members)"


def m_freeform(rng, w):
    sh, p = w.pick(rng, "shapes")
    fb = sh.build_freeform(int(d_coord(rng)) % 10**7, int(d_coord(rng)) % 10**7, scale=rng.choice([1.0, 2.5, (1.0, 3.0), 914400 / 72]))
    for _ in range(rng.choice([1, 2, 4])):
        pts = [(rng.randint(-500, 500), rng.randint(-500, 500)) for _ in range(rng.choice([1, 3]))]
        fb.add_line_segments(pts, close=rng.random() < 0.5)
        if rng.random() < 0.3:
            fb.move_to(rng.randint(-100, 100), rng.randint(-100, 100))
    fb.convert_to_shape(rng.choice([0, 914400]), rng.choice([0, 914400]))
    return f"{p}.build_freeform"


def m_add_table(rng, w):
    sh, p = w.pick(rng, "shapes")
    if ".shapes[" in p:   # group shapes have no add_table
        raise Skip("group")
    r, c = rng.choice([1, 2, 3, 5]), rng.choice([1, 2, 4])
    sh.add_table(r, c, *_geom(rng))
    return f"{p}.add_table({r},{c})"


def m_add_chart(rng, w):
    from harness import chartlab as lab
    sh, p = w.pick(rng, "shapes")
    if ".shapes[" in p:
        raise Skip("group")
    ct, kind = rng.choice(lab.writable_types())
    if kind == "cat":
        spec, cd = lab.gen_cat_data(rng, n_series=rng.choice([1, 2, 3]))
    else:
        spec, cd = lab.gen_xy_data(rng, bubble=(kind == "bubble"))
        if not spec["series"]:
            raise Skip("empty")
    sh.add_chart(ct, *_geom(rng), cd)
    return f"{p}.add_chart({ct.name})"


def m_add_movie(rng, w):
    sh, p = w.pick(rng, "shapes")
    if ".shapes[" in p:
        raise Skip("group")
    m = media()
    poster = rng.choice([None, m["images"][0]])
    sh.add_movie(m["movie"], *_geom(rng), poster_frame_image=poster, mime_type=rng.choice(["video/mp4", "video/unknown"]))
    return f"{p}.add_movie"


def m_add_ole(rng, w):
    from pptx.enum.shapes import PROG_ID
    sh, p = w.pick(rng, "shapes")
    if ".shapes[" in p:
        raise Skip("group")
    f = rng.choice(media()["ole"])
    prog = {"xlsx": PROG_ID.XLSX, "docx": PROG_ID.DOCX, "pptx": PROG_ID.PPTX}[f.rsplit(".", 1)[1]]
    x, y, cx, cy = _geom(rng)
    kw = rng.choice([{}, {"width": cx, "height": cy}, {"icon_file": media()["images"][0]}, {"icon_width": 914400, "icon_height": 457200}])
    sh.add_ole_object(f, rng.choice([prog, "Custom.ProgId.1"]), x, y, **kw)
    return f"{p}.add_ole_object"


def m_ph_insert(rng, w):
    kind = rng.choice(["ph_picture", "ph_chart", "ph_table"])
    ph, p = w.pick(rng, kind)
    if kind == "ph_picture":
        ph.insert_picture(rng.choice(media()["images"]))
    elif kind == "ph_table":
        ph.insert_table(rng.choice([1, 2, 4]), rng.choice([1, 3]))
    else:
        from harness import chartlab as lab
        ct, k = rng.choice([t for t in lab.writable_types() if t[1] == "cat"])
        spec, cd = lab.gen_cat_data(rng, n_series=2)
        ph.insert_chart(ct, cd)
    return f"{p}.insert_{kind[3:]}"


def m_adjust(rng, w):
    s, p = w.pick(rng, "autoshape")
    adj = s.adjustments
    if len(adj) == 0:
        raise Skip("no adjustments")
    i = rng.randrange(len(adj))
    v = rng.choice([0.0, 0.5, 1.0, -0.25, 2.5, rng.uniform(-1, 2), 0.123456789])
    adj[i] = v
    return f"{p}.adjustments[{i}]={v}"


def m_fill(rng, w):
    f, p = w.pick(rng, "fill")
    k = rng.choice(["solid", "background", "gradient", "patterned"])
    getattr(f, k)()
    if k == "solid":
        f.fore_color.rgb = d_rgb(rng)
    return f"{p}.{k}()"


def m_bg(rng, w):
    b, p = w.pick(rng, "background")
    f = b.fill
    k = rng.choice(["solid", "background", "gradient", "patterned"])
    getattr(f, k)()
    if k == "solid":
        f.fore_color.theme_color = d_enum(rng, __import__("pptx.enum.dml", fromlist=["x"]).MSO_THEME_COLOR, skip=("MIXED", "NOT_THEME_COLOR"))
    return f"{p}.fill.{k}()"


def m_line_color(rng, w):
    l, p = w.pick(rng, "line")
    l.color.rgb = d_rgb(rng)
    return f"{p}.color.rgb="


def m_font_color(rng, w):
    f, p = w.pick(rng, "font")
    if rng.random() < 0.5:
        f.color.rgb = d_rgb(rng)
    else:
        f.color.theme_color = d_enum(rng, __import__("pptx.enum.dml", fromlist=["x"]).MSO_THEME_COLOR, skip=("MIXED", "NOT_THEME_COLOR"))
        if rng.random() < 0.5:
            f.color.brightness = d_float(rng, -1.0, 1.0)
    return f"{p}.color="


def m_tf(rng, w):
    tf, p = w.pick(rng, "text_frame")
    k = rng.choice(["add_paragraph", "clear", "fit", "autofit"])
    if k == "add_paragraph":
        para = tf.add_paragraph()
        if rng.random() < 0.7:
            para.text = d_text(rng)
    elif k == "clear":
        tf.clear()
    else:
        from pptx.enum.text import MSO_AUTO_SIZE
        tf.auto_size = rng.choice([MSO_AUTO_SIZE.NONE, MSO_AUTO_SIZE.SHAPE_TO_FIT_TEXT, MSO_AUTO_SIZE.TEXT_TO_FIT_SHAPE, None])
    return f"{p}.{k}"


def m_para(rng, w):
    para, p = w.pick(rng, "paragraph")
    k = rng.choice(["add_run", "add_line_break", "clear", "add_run+props"])
    if k == "add_run":
        para.add_run().text = d_str(rng)
    elif k == "add_line_break":
        para.add_line_break()
    elif k == "clear":
        para.clear()
    else:
        r = para.add_run()
        r.text = d_str(rng)
        r.font.bold = True
        para.add_line_break()
        para.alignment = None
        para.level = rng.randint(0, 8)
    return f"{p}.{k}"


def m_action(rng, w):
    a, p = w.pick(rng, "action")
    k = rng.choice(["address", "target_slide", "none"])
    if k == "address":
        a.hyperlink.address = rng.choice(["https://example.org/x?y=1&z=2", None])
    elif k == "target_slide":
        s, _ = w.pick(rng, "slide")
        a.target_slide = s
    else:
        a.target_slide = None
    return f"{p}.{k}"


def m_merge(rng, w):
    t, p = w.pick(rng, "table")
    nr, nc = len(t.rows), len(t.columns)
    r1, r2 = sorted([rng.randrange(nr), rng.randrange(nr)])
    c1, c2 = sorted([rng.randrange(nc), rng.randrange(nc)])
    a, b = t.cell(r1, c1), t.cell(r2, c2)
    if rng.random() < 0.75:
        a.merge(b)
        return f"{p}.merge(({r1},{c1}),({r2},{c2}))"
    a.split()
    return f"{p}.split(({r1},{c1}))"


def m_notes(rng, w):
    s, p = w.pick(rng, "slide")
    ns = s.notes_slide
    if ns.notes_text_frame is not None:
        ns.notes_text_frame.text = d_text(rng)
    return f"{p}.notes_slide.text="


def m_chart_text(rng, w):
    k = rng.choice(["charttitle", "axistitle", "datalabel", "legendfont", "chartfont", "ticklabelfont", "dlblsfont"])
    if k == "charttitle":
        c, p = w.pick(rng, "chart")
        c.chart_title.text_frame.text = d_text(rng)
    elif k == "axistitle":
        a, p = w.pick(rng, "axis")
        a.axis_title.text_frame.text = d_text(rng)
    elif k == "datalabel":
        pt, p = w.pick(rng, "point")
        dl = pt.data_label
        if rng.random() < 0.6:
            dl.text_frame.text = d_str(rng)
        else:
            dl.font.bold = True
    elif k == "legendfont":
        l, p = w.pick(rng, "legend")
        l.font.size = d_pt(rng)
    elif k == "chartfont":
        c, p = w.pick(rng, "chart")
        c.font.italic = d_tri(rng)
    elif k == "ticklabelfont":
        t, p = w.pick(rng, "ticklabels")
        t.font.size = d_pt(rng)
    else:
        d, p = w.pick(rng, "datalabels")
        d.font.bold = d_tri(rng)
    return f"{p}.{k}"


def m_chart_format(rng, w):
    f, p = w.pick(rng, "chartformat")
    if rng.random() < 0.5:
        k = rng.choice(["solid", "background", "gradient", "patterned"])
        getattr(f.fill, k)()
        if k == "solid":
            f.fill.fore_color.rgb = d_rgb(rng)
        return f"{p}.fill.{k}()"
    f.line.width = rng.choice([0, 12700, 25400])
    f.line.color.rgb = d_rgb(rng)
    return f"{p}.line"


def m_point(rng, w):
    pt, p = w.pick(rng, "point")
    k = rng.choice(["fill", "marker", "dlbl-pos"])
    if k == "fill":
        pt.format.fill.solid()
        pt.format.fill.fore_color.rgb = d_rgb(rng)
    elif k == "marker":
        from pptx.enum.chart import XL_MARKER_STYLE
        pt.marker.style = rng.choice(list(XL_MARKER_STYLE))
        pt.marker.format.fill.solid()
    else:
        from pptx.enum.chart import XL_LABEL_POSITION
        pt.data_label.position = rng.choice(list(XL_LABEL_POSITION) + [None])
    return f"{p}.{k}"


def m_bad_index(rng, w):
    """an index outside the collection (negative ones included where the collection documents 0..len-1): the lookup must
    be refused, or - where negative indexes are legal - deliver an object that can be used like any other"""
    se, p = w.pick(rng, "series")
    if not hasattr(se, "points"):
        raise Skip("series without points")
    n = len(se.points)
    i = rng.choice([-1, -n, -n - 1, n, n + 5])
    pt = se.points[i]                      # IndexError here is a rejected call
    k = rng.choice(["format", "marker", "label"])
    if k == "format":
        pt.format.fill.solid()
    elif k == "marker":
        pt.marker.size = 7
    else:
        from pptx.enum.chart import XL_LABEL_POSITION
        pt.data_label.position = XL_LABEL_POSITION.CENTER
    return f"{p}.points[{i}].{k}"


def m_replace_data(rng, w):
    from harness import chartlab as lab
    c, p = w.pick(rng, "chart")
    try:
        kind = type(c.plots[0]).__name__
    except Exception:  # noqa
        raise Skip("no plot")
    if kind in ("XyPlot", "BubblePlot"):
        spec, cd = lab.gen_xy_data(rng, bubble=(kind == "BubblePlot"))
    else:
        spec, cd = lab.gen_cat_data(rng, n_series=rng.choice([1, 2, 4]))
    if not spec["series"]:
        raise Skip("empty")
    c.replace_data(cd)
    return f"{p}.replace_data({len(spec['series'])} series)"


def m_save_reopen(rng, w):
    raise Skip("handled by the driver of the history")


METHODS = [
    (m_add_slide, 3), (m_add_shape, 5), (m_add_textbox, 3), (m_add_picture, 3), (m_add_connector, 3), (m_connect, 2), (m_add_group, 3),
    (m_freeform, 2), (m_add_table, 3), (m_add_chart, 4), (m_add_movie, 1), (m_add_ole, 1), (m_ph_insert, 2), (m_adjust, 2), (m_fill, 5),
    (m_bg, 2), (m_line_color, 2), (m_font_color, 3), (m_tf, 4), (m_para, 5), (m_action, 2), (m_merge, 3), (m_notes, 2), (m_chart_text, 5),
    (m_chart_format, 3), (m_point, 2), (m_replace_data, 2), (m_bad_index, 2),
]

_props = None


def generic_bad(rng):
    """values outside every property's domain by type or magnitude (a property may still coerce some of them)"""
    return rng.choice(["zz", [], 10**30, -10**30, 0.5, -1, object()])


def prop_table():
    global _props
    if _props is None:
        _props = props()
        for p in _props:
            if p.bad is None:
                p.bad = generic_bad
    return _props


def random_op(rng, w):
    """perform ONE operation on the real objects; -> (description, outcome) with outcome 'ok' | 'rejected:<Exc>' | 'skip'
    Unexpected exception types propagate to the caller."""
    if rng.random() < 0.5:
        live = [p for p in prop_table() if w.objs.get(p.kind)]
        p = rng.choice(live)
        obj, path = rng.choice(w.objs[p.kind])
        r = rng.random()
        if r < 0.12 and p.none_ok:
            v, cls = None, "none"
        elif r < 0.24 and p.bad is not None:
            v, cls = p.bad(rng), "bad"
        else:
            v, cls = p.gen(rng), "in"
        desc = f"{path}.{p.name} = {v!r}"[:200]
        try:
            setattr(obj, p.name, v)
        except REJECT as e:
            return desc, f"rejected:{type(e).__name__}:{cls}"
        return desc, "ok:" + cls
    fns, wts = zip(*METHODS)
    fn = rng.choices(fns, wts)[0]
    try:
        return fn(rng, w), "ok"
    except Skip as s:
        return f"{fn.__name__}: n/a ({s})", "skip"
    except REJECT as e:
        return f"{fn.__name__}", f"rejected:{type(e).__name__}"
