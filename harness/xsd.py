"""Loader / flattener for the ISO-29500 transitional XSDs shipped under /repo/spec.

Content models are flattened to an ordered list of *slots*; a slot is an element or a choice of
elements with an occurrence range.  Attributes and simple types are resolved through
restriction / union / attributeGroup."""
from __future__ import annotations

from dataclasses import dataclass, field
from pathlib import Path

from lxml import etree

XS = "http://www.w3.org/2001/XMLSchema"
UNB = None  # unbounded


def q(tag):
    return "{%s}%s" % (XS, tag)


class NotFlat(Exception):
    pass


@dataclass
class Slot:
    tags: list  # Clark names, declaration order
    min: int
    max: object  # int | None
    wild: bool = False
    types: dict = field(default_factory=dict)  # clark tag -> type qname (ns, local)


@dataclass
class Simple:
    name: tuple
    builtin: str  # xsd builtin at the root of the restriction chain ('' for a pure union)
    enums: list | None = None
    facets: dict = field(default_factory=dict)
    patterns: list = field(default_factory=list)
    union: list = field(default_factory=list)  # list[Simple]


class Schemas:
    def __init__(self, xsd_dir: Path, files=None):
        self.types, self.elements, self.groups, self.attr_groups, self.attrs_global = {}, {}, {}, {}, {}
        self.nsmap_of = {}
        files = files or sorted(Path(xsd_dir).glob("*.xsd"))
        for f in files:
            root = etree.parse(str(f)).getroot()
            tns = root.get("targetNamespace")
            for el in root:
                if not isinstance(el.tag, str):
                    continue
                name = el.get("name")
                if name is None:
                    continue
                key = (tns, name)
                self.nsmap_of[id(el)] = None
                if el.tag in (q("complexType"), q("simpleType")):
                    self.types[key] = el
                elif el.tag == q("element"):
                    self.elements[key] = el
                elif el.tag == q("group"):
                    self.groups[key] = el
                elif el.tag == q("attributeGroup"):
                    self.attr_groups[key] = el
                elif el.tag == q("attribute"):
                    self.attrs_global[key] = el
        self._cm_cache, self._simple_cache = {}, {}

    # -- names
    @staticmethod
    def tns(el):
        return el.getroottree().getroot().get("targetNamespace")

    def qname(self, el, s):
        """resolve a prefixed name in the context of element el -> (ns, local)"""
        if ":" in s:
            p, l = s.split(":", 1)
            return (el.nsmap[p], l)
        return (el.nsmap.get(None), s)

    # -- content models
    def _occ(self, el):
        mn = int(el.get("minOccurs", "1"))
        mx = el.get("maxOccurs", "1")
        return mn, (UNB if mx == "unbounded" else int(mx))

    def _elem_decl(self, el):
        """-> (clark tag, type qname or None)"""
        if el.get("ref"):
            ns, l = self.qname(el, el.get("ref"))
            g = self.elements.get((ns, l))
            t = self.qname(g, g.get("type")) if g is not None and g.get("type") else None
            return "{%s}%s" % (ns, l), t
        t = self.qname(el, el.get("type")) if el.get("type") else None
        return "{%s}%s" % (self.tns(el), el.get("name")), t

    def _choice_alts(self, el):
        """alternatives of a choice as {tag: type}; raises NotFlat when an alternative is not a single element"""
        alts, wild = {}, False
        for c in el:
            if not isinstance(c.tag, str) or c.tag == q("annotation"):
                continue
            if c.tag == q("element"):
                t, ty = self._elem_decl(c)
                alts[t] = ty
            elif c.tag == q("group"):
                g = self.groups[self.qname(c, c.get("ref"))]
                inner = [x for x in g if isinstance(x.tag, str) and x.tag != q("annotation")][0]
                if inner.tag == q("choice"):
                    a, w = self._choice_alts(inner)
                    alts.update(a); wild |= w
                elif inner.tag == q("sequence"):
                    kids = [x for x in inner if isinstance(x.tag, str) and x.tag != q("annotation")]
                    if len(kids) == 1 and kids[0].tag == q("element"):
                        t, ty = self._elem_decl(kids[0]); alts[t] = ty
                    else:
                        raise NotFlat("choice alternative is a multi-element group")
                else:
                    raise NotFlat("choice alt group")
            elif c.tag == q("choice"):
                a, w = self._choice_alts(c)
                alts.update(a); wild |= w
            elif c.tag == q("any"):
                wild = True
            elif c.tag == q("sequence"):
                kids = [x for x in c if isinstance(x.tag, str) and x.tag != q("annotation")]
                if len(kids) == 1 and kids[0].tag == q("element"):
                    t, ty = self._elem_decl(kids[0]); alts[t] = ty
                else:
                    raise NotFlat("choice alternative is a sequence")
            else:
                raise NotFlat(c.tag)
        return alts, wild

    def _particle(self, el, outer_min=1):
        """-> list[Slot] for a particle used as one item of a sequence"""
        mn, mx = self._occ(el)
        mn = min(mn, outer_min) if outer_min == 0 else mn
        if el.tag == q("element"):
            t, ty = self._elem_decl(el)
            return [Slot([t], mn, mx, types={t: ty})]
        if el.tag == q("any"):
            return [Slot([], mn, mx, wild=True)]
        if el.tag == q("choice"):
            try:
                alts, wild = self._choice_alts(el)
            except NotFlat:
                # choice between single elements and a multi-element group (CT_DLbl/CT_DLbls): the alternatives are
                # mutually exclusive, so for ORDER purposes list the single elements first, then the group's sequence,
                # everything optional.  Recorded as an approximation.
                self.approx = getattr(self, "approx", set())
                out = []
                for c in el:
                    if not isinstance(c.tag, str) or c.tag == q("annotation"):
                        continue
                    for s in self._particle(c, outer_min=0):
                        s.min = 0
                        out.append(s)
                self.approx.add(self.tns(el) + ":" + (el.getparent().getparent().get("name") or "?"))
                return out
            return [Slot(list(alts), mn, mx, wild=wild, types=alts)]
        if el.tag == q("sequence"):
            if mx != 1:
                kids = [x for x in el if isinstance(x.tag, str) and x.tag != q("annotation")]
                if len(kids) == 1 and kids[0].tag in (q("element"), q("choice"), q("any")):
                    s = self._particle(kids[0])[0]
                    return [Slot(s.tags, 0 if mn == 0 else s.min, UNB if (mx is UNB or s.max is UNB) else mx * s.max, s.wild, s.types)]
                raise NotFlat("repeating sequence")
            out = []
            for c in el:
                if isinstance(c.tag, str) and c.tag != q("annotation"):
                    out += self._particle(c, outer_min=0 if mn == 0 else 1)
            return out
        if el.tag == q("group"):
            g = self.groups[self.qname(el, el.get("ref"))]
            inner = [x for x in g if isinstance(x.tag, str) and x.tag != q("annotation")][0]
            if inner.tag == q("choice"):
                alts, wild = self._choice_alts(inner)
                imn, imx = self._occ(inner)
                return [Slot(list(alts), min(mn, imn) if mn == 0 else imn * mn, UNB if (mx is UNB or imx is UNB) else mx * imx, wild, alts)]
            if mx != 1:
                raise NotFlat("repeating group of sequence")
            return self._particle_with_min(inner, mn)
        if el.tag == q("all"):
            raise NotFlat("xs:all")
        raise NotFlat(el.tag)

    def _particle_with_min(self, el, mn):
        out = self._particle(el)
        if mn == 0:
            for s in out:
                s.min = 0
        return out

    def content_model(self, tname):
        """flattened content model of complex type (ns, local): list[Slot]"""
        if tname in self._cm_cache:
            return self._cm_cache[tname]
        ct = self.types[tname]
        slots = []
        body = ct
        cc = ct.find(q("complexContent"))
        if cc is not None:
            ext = cc.find(q("extension"))
            if ext is None:
                ext = cc.find(q("restriction"))
            base = self.qname(ext, ext.get("base"))
            if base in self.types and self.types[base].tag == q("complexType") and cc.find(q("extension")) is not None:
                slots += self.content_model(base)
            body = ext
        if ct.find(q("simpleContent")) is not None:
            self._cm_cache[tname] = []
            return []
        for c in body:
            if isinstance(c.tag, str) and c.tag in (q("sequence"), q("choice"), q("group"), q("all")):
                slots += self._particle(c)
        self._cm_cache[tname] = slots
        return slots

    # -- attributes
    def attributes(self, tname):
        """{attr clark-or-plain name: (simple type qname | None, use, default)}"""
        ct = self.types[tname]
        out = {}

        def walk(node):
            for c in node:
                if not isinstance(c.tag, str):
                    continue
                if c.tag == q("attribute"):
                    if c.get("ref"):
                        ns, l = self.qname(c, c.get("ref"))
                        g = self.attrs_global.get((ns, l))
                        ty = self.qname(g, g.get("type")) if g is not None and g.get("type") else None
                        out["{%s}%s" % (ns, l)] = (ty, c.get("use", "optional"), c.get("default"))
                    else:
                        ty = self.qname(c, c.get("type")) if c.get("type") else None
                        out[c.get("name")] = (ty, c.get("use", "optional"), c.get("default"))
                elif c.tag == q("attributeGroup"):
                    walk(self.attr_groups[self.qname(c, c.get("ref"))])
                elif c.tag in (q("complexContent"), q("simpleContent")):
                    for e in c:
                        if e.tag in (q("extension"), q("restriction")):
                            base = self.qname(e, e.get("base"))
                            if base in self.types and self.types[base].tag == q("complexType"):
                                out.update(self.attributes(base))
                            walk(e)

        walk(ct)
        return out

    # -- simple types
    def simple(self, tname) -> Simple:
        if tname in self._simple_cache:
            return self._simple_cache[tname]
        if tname[0] == XS:
            s = Simple(tname, tname[1])
            self._simple_cache[tname] = s
            return s
        st = self.types[tname]
        res = Simple(tname, "")
        r = st.find(q("restriction"))
        u = st.find(q("union"))
        if r is not None:
            base = self.simple(self.qname(r, r.get("base")))
            res.builtin = base.builtin
            res.enums = list(base.enums) if base.enums is not None else None
            res.facets = dict(base.facets)
            res.patterns = list(base.patterns)
            res.union = list(base.union)
            enums = [e.get("value") for e in r.findall(q("enumeration"))]
            if enums:
                res.enums = enums
            for f in r:
                if isinstance(f.tag, str) and f.tag not in (q("enumeration"), q("annotation")):
                    n = etree.QName(f).localname
                    if n == "pattern":
                        res.patterns.append(f.get("value"))
                    else:
                        res.facets[n] = f.get("value")
        elif u is not None:
            for m in (u.get("memberTypes") or "").split():
                res.union.append(self.simple(self.qname(u, m)))
        self._simple_cache[tname] = res
        return res

    def tag_types(self):
        """clark tag -> set of complex/simple type qnames an element with that tag can have"""
        out = {}
        for key, el in self.elements.items():
            if el.get("type"):
                out.setdefault("{%s}%s" % key, set()).add(self.qname(el, el.get("type")))
        for key, ct in self.types.items():
            if ct.tag != q("complexType"):
                continue
            for el in ct.iter(q("element")):
                if el.get("name") and el.get("type"):
                    out.setdefault("{%s}%s" % (self.tns(el), el.get("name")), set()).add(self.qname(el, el.get("type")))
        for key, g in self.groups.items():
            for el in g.iter(q("element")):
                if el.get("name") and el.get("type"):
                    out.setdefault("{%s}%s" % (self.tns(el), el.get("name")), set()).add(self.qname(el, el.get("type")))
        return out


_cached = None


def load(repo):
    global _cached
    if _cached is None:
        d = Path(repo) / "spec" / "ISO-IEC-29500-4" / "xsd"
        files = [d / n for n in ("pml.xsd", "dml-main.xsd", "dml-chart.xsd", "dml-picture.xsd", "shared-commonSimpleTypes.xsd",
                                  "shared-relationshipReference.xsd", "dml-chartDrawing.xsd")]
        _cached = Schemas(d, files)
    return _cached
