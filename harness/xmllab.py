"""XML-part validation lab for C03 / C09 / C12: lxml XMLSchema validators over the shipped ISO-29500-4 transitional
XSDs (after markup-compatibility preprocessing), iteration over the XML parts of a package, C14N helpers."""
from __future__ import annotations

from pathlib import Path

from lxml import etree

from harness import common
from harness.chartlab import mc_preprocess  # noqa: F401

PML = "http://schemas.openxmlformats.org/presentationml/2006/main"
DML = "http://schemas.openxmlformats.org/drawingml/2006/main"
CHART = "http://schemas.openxmlformats.org/drawingml/2006/chart"
XSD_OF = {PML: "pml.xsd", DML: "dml-main.xsd", CHART: "dml-chart.xsd"}
_schemas = {}


def schema_for(root):
    """the lxml validator responsible for a part with this root element (None: no shipped schema)"""
    ns = etree.QName(root).namespace
    f = XSD_OF.get(ns)
    if f is None:
        return None
    if f not in _schemas:
        _schemas[f] = etree.XMLSchema(etree.parse(str(Path(common.REPO) / "spec/ISO-IEC-29500-4/xsd" / f)))
    return _schemas[f]


def validate(root):
    """-> (verdict, message): verdict True / False / None (no schema for this root)"""
    sch = schema_for(root)
    if sch is None:
        return None, ""
    pre = mc_preprocess(root)
    if sch.validate(pre):
        return True, ""
    e = sch.error_log.last_error
    return False, f"line {e.line}: {e.message}"[:300]


def xml_parts(pkg):
    """[(partname, root element)] for every XmlPart reachable in the package"""
    out = []
    for part in pkg.iter_parts():
        el = getattr(part, "_element", None)
        if el is not None and isinstance(getattr(el, "tag", None), str):
            out.append((str(part.partname), el))
    return out


def c14n(el):
    return etree.tostring(el, method="c14n")
